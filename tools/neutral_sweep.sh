#!/bin/bash
# Runs every kept behaviour-preserving refactoring against the checks that look at the code it touches.
# Every run must PASS; anything else is a false alarm of the machinery. Applies each patch to /repo and reverts it.
cd /verif || exit 2
declare -A CHECKS=(
 [neutral1]="C12 C13 C14 C15" [neutral2]="C04 C05 C01 C11"
 [neutral3-n1]="C19 C15" [neutral3-n2]="C19 C15" [neutral3-n3]="C01 C11 C13 C04" [neutral3-n4]="C01 C11 C05"
 [neutral4-n1]="C11 C14 C01" [neutral4-n2]="C11 C01" [neutral4-n3]="C11 C14 C13 C04 C05 C15" [neutral4-n4]="C19 C11 C15"
 [neutral5]="C01 C11 C04 C05 C13"
 [neutral7-n1]="C11 C01" [neutral7-n2]="C11 C01 C04 C05" [neutral7-n3]="C11 C01" [neutral7-n4]="C11 C01" [neutral7-n5]="C13 C15 C11 C01"
 [neutral8-n1]="C04 C05 C01 C11" [neutral8-n2]="C19 C15" [neutral8-n3]="C12 C15 C13" [neutral8-n4]="C01 C11 C13 C14"
 [neutral9-n1]="C01 C11 C05" [neutral9-n2]="C04 C05 C01 C11" [neutral9-n3]="C19 C15" [neutral9-n4]="C12 C13 C15"
 [neutral6-n1]="C14 C15 C11" [neutral6-n2]="C19 C15" [neutral6-n3]="C12 C13 C15" [neutral6-n4]="C13 C15 C12 C01"
)
for d in neutral/*/; do
  id=$(basename $d); grp=${id%-n*}
  checks=${CHECKS[$id]:-${CHECKS[$grp]}}
  tools/run_neutral.sh $id $checks 2>&1 | grep -v conda
done
