#!/usr/bin/env python3
"""Regenerates /verif/MANIFEST.json from the table below (single source of truth for the interface)."""
import json, subprocess, sys

NA = {
 "C02": "Filter semantics is a pure function of (frame, clause): no schedule, stream boundary, fault, driver or hash key is involved, so a deterministic simulator has nothing to vary; a check would be property-based/differential testing under another name (DESIGN.md §4). Its concurrent shadow is covered by C11.",
 "C03": "Sort is a deterministic pure function of (frame, orders); its regimes are reached by input size and shape, not by any environment choice a simulator owns (DESIGN.md §4).",
 "C06": "Apply/FilteredApply/WithRowNums are pure functions of (frame, instructions); callbacks run synchronously in index order; nothing for a scheduler or fault injector to vary (DESIGN.md §4). Persistence of the source frame is C01.",
 "C07": "Eval is a pure function of (frame, expression, context); temporaries live in private intermediate frames (DESIGN.md §4). Shared read-only contexts under concurrency are covered by C11.",
 "C08": "New/Select/Drop/Slice/Copy are pure; the only environment-looking input (Go map order in New) was examined and decides nothing observable (DESIGN.md §0 N6, §4).",
 "C09": "Agreement of observers and Equals is a pure observation of one value; its concurrent shadow is C11's I2, its aliasing shadow C01's I1 (DESIGN.md §4).",
 "C10": "Err instead of panic and sticky Err are pure functions of (frame incl. its Err, arguments); the error slot is a value copied along the chain, not shared state. I/O-side error reporting is C15 (DESIGN.md §4).",
 "C16": "Shortest round-trip float text is a pure function of 64 bits and a buffer: input generation, not simulation (DESIGN.md §4).",
 "C17": "Enum value set/order is a pure function of (declared values, data, operator); its CSV construction path depends on stream boundaries only through what C12 covers (DESIGN.md §4).",
 "C18": "like/ilike is a pure function of (cell, pattern); the reusable matcher buffer is private to one Filter call, and its privacy across goroutines is C11 (DESIGN.md §4).",
}

CHECKS = {
 "C12": dict(engine="csvfrag", level="exploration", design="§3 C12",
   technique="deterministic simulation: seeded fragmentation schedules of the io.Reader (SimReader) + buffer-capacity knob, oracle = single-read run and the document's denotation",
   text="Seeded exploration: rapid draws document, configuration, read plan (one-byte/constant/random/boundary-targeted cuts, EOF style) and scan-buffer capacity; every run is compared with the single-read run (schedule independence), with the cells the generator rendered (faithfulness) and against a Read-call budget (bounded liveness). Sampling, not proof: the schedule space is exponential in document length; boundary-targeted plans and the 1..64 byte buffer knob aim the samples at the refill/realloc/compaction paths; rare large cases cross the size thresholds (rows beyond 32 KiB, >= 1000 rows with an outgrown RowCountHint, 254..258 distinct enum values). A second, small phase reads large typed documents under the Go race detector.",
   note="Trusted: SimReader obeys the io.Reader contract; the denotation oracle uses strconv.Atoi/ParseFloat/ParseBool as the documented definition of type inference; documents are restricted to the unambiguous well-formed space (no CR in cells). rapid v1.3.0 is the only choice source; replay = rapid fail file."),
 "C13": dict(engine="roundtrip", level="exploration", design="§3 C13",
   technique="deterministic simulation: writer and reader as two scheduled tasks over a bounded simulated pipe; read-your-writes oracle cell by cell",
   text="Seeded exploration of frames x writer/reader options x interleavings of ToCSV and ReadCSV over a bounded SimPipe (pipe capacity 1 byte .. 1 MiB, PCT or random-walk schedule): the frame read back must equal the observation of the source frame cell by cell (floats by bit pattern, NaN preserved, null<->empty per EmptyNull), and both tasks must finish (no deadlock). This is the fault-free oracle of the CSV I/O path; the fault-injecting configuration is C15.",
   note="Trusted: obs (typed views) as ground truth of a frame; generator restricted to what the property states (no CR). The scheduler contributes the chunking; the frame is what the seed mostly explores (stated in evidence as chunk/interleaving probes)."),
 "C14": dict(engine="roundtrip", level="exploration", design="§3 C14",
   technique="deterministic simulation: ToJSON -> simulated pipe -> ReadJSON under a seeded schedule; oracle = independent parser (encoding/json token stream) + read-your-writes",
   text="Seeded exploration of frames with names and strings over arbitrary bytes and floats over all finite values: the bytes ToJSON wrote must be valid JSON whose token stream is one object per row in row order with keys in column order and values equal to the cells (ints exactly, floats bit-identical after ParseFloat, NaN/null as null); ReadJSON of the same stream must reproduce the frame where the property says it does.",
   note="Trusted: encoding/json as the independent parser; 'properly escaped invalid UTF-8' is taken to mean U+FFFD per invalid byte (what encoding/json itself does)."),
 "C19": dict(engine="roundtrip", level="exploration", design="§3 C19",
   technique="deterministic simulation: in-memory database/sql driver (SimDB) that parses, stores and replays rows, with seeded legal driver variation",
   text="Seeded exploration of frames x dialects x driver behaviours: the statements and arguments recorded by SimDB must be one INSERT per row in frame order naming the configured table and all columns, identifiers wrapped in the escape rune, placeholders ? or $1..$n, arguments equal to the row (null string as NULL); ReadSQL of the stored rows (and of a variant with NULL floats and leading NULLs) must reproduce the frame, enum as string.",
   note="Trusted: database/sql (real) above the driver; SimDB's strict INSERT grammar; identifiers restricted to an alphabet that cannot collide with the syntax."),
 "C15": dict(engine="iofault", level="fault_enumeration", design="§3 C15",
   technique="deterministic simulation with fault injection: exhaustive enumeration of fault positions and shapes per seeded input over simulated reader, writer and database driver",
   text="For each seeded input every position at which the reader, writer or driver can start failing is executed (byte offsets incl. 'instead of EOF', every driver call incl. each Rows.Next), in three shapes ((0,err) for good, data-with-error / short write for good, and a transient failure after which the stub works again), with identity-sensitive error values at every position, a fresh fragmentation plan each time, small scan buffers under ReadCSV faults, and readers/writers that additionally implement io.WriterTo / io.ByteReader / io.ByteWriter / io.StringWriter. Oracle: never a panic; fault fired => error reported; no error => result identical to the fault-free run / writer received the complete output. Exhaustive in the fault dimension per input, sampled over inputs.",
   note="Trusted: the stubs obey the io and database/sql/driver contracts. driver.ErrBadConn may be absorbed by database/sql (retry), so for it only 'no error => nothing lost' is demanded. Tx-context cancellation is excluded (not replayable). Inputs are small (every position is executed for every input); size thresholds of hundreds of rows are left to C13/C14/C19."),
 "C04": dict(engine="hashsim", level="exploration", design="§3 C04, C05",
   technique="deterministic simulation: the hash function and math/rand are simulated environment (seeded hash flavours incl. forced collision patterns); oracle = reference partition/aggregation model",
   text="Seeded exploration of frames x key columns x Null x hash flavours. The hash function is per-process environment nondeterminism that no test controls; behind the hook the simulator chooses it, so collision chains, growth/rehash timing, 32-bit truncation clashes and hash/equality agreement are exercised on purpose. QFrames() must equal the reference partition (each class in frame order), Aggregate must return one row per class with the class key and every aggregate equal to the fold of exactly that class's values in frame order (recording user functions check the exact slices handed out). Sampling, not proof.",
   note="Trusted: obs as ground truth; the reference partition encodes the equality the property states (numeric float equality, null/NaN equal only with Null(true)). Hash flavours are deterministic functions of (bytes, seed), i.e. legal replacements."),
 "C05": dict(engine="hashsim", level="exploration", design="§3 C04, C05",
   technique="deterministic simulation: seeded hash flavours behind the hash seam; oracle = reference partition, one whole input row per class",
   text="Same simulated world as C04: Distinct must return exactly one row per class of the reference partition under every hash flavour, each an unmodified input row (matched through a hidden id column, or by content when all columns are the key).",
   note="Trusted: as C04."),
 "C01": dict(engine="family", level="exploration", design="§3 C01",
   technique="deterministic simulation: simulated caller threads under a seeded cooperative scheduler (PCT / random walk) over go/ast-injected loop-level scheduling points; oracle = every member of a storage-sharing family equals its creation-time snapshot",
   text="Seeded exploration of operation histories over a growing family of frames, groupers and views that share column and index storage, executed by 1..3 simulated clients whose interleaving at loop granularity is decided by the seed. Invariant I1 (every earlier member, and every slice handed to New, is observably what it was at creation) is evaluated after every operation and at sampled scheduler steps inside other clients' operations, which is what exposes a mutate-then-restore of shared storage. Sampling of an unbounded history space, not proof.",
   note="Trusted: obs/digest through the public accessors; yields at loop heads of a scratch copy (plus, in the thorough tier, before every indexed/selector/pointer assignment), sync.Mutex/RWMutex/Once replaced there by cooperative equivalents (the code under test is otherwise the real qframe); single-client runs are ordinary model-based stateful testing and are counted separately in the evidence."),
 "C11": dict(engine="family+race", level="exploration", design="§3 C11, §2.3, §2.4",
   technique="deterministic simulation of concurrent callers (seeded cooperative scheduler over injected yields; oracle: result under the schedule == result alone) + the same seeded programs on free goroutines under the Go race detector",
   text="Three phases, the first two over the same generated world. (1) Deterministic: 2..4 simulated clients, interleaving chosen by PCT/random-walk at loop granularity; every operation's canonical result must equal (a) its result when re-run alone and (b) its result on fresh copies of its operands rebuilt from their observations (the sequential specification of an immutable value is stateless, so this is the linearizability check; (b) makes 'alone' independent of whatever earlier operations left behind on shared storage), no member of the family may change, and a client whose operation consumes far more scheduling points than the same operation needs alone, or that deadlocks on a lock, is a liveness violation. Programs include 'storms' (all clients run one operation on one receiver), sibling derivations, failing writers, and occasionally base frames of 1024..2600 rows. (2) Race: the same programs on 2..8 free-running goroutines against an uninstrumented -race build; any report of the race detector, any panic and any result difference is a violation. Phase 2 observes real executions: stated, and justified in DESIGN.md §2.4 (scheduler hand-offs are happens-before edges that would blind the detector). (3) First use: the race binary re-executes itself once per trial so that several goroutines running one operation are the first thing that happens to the library in a fresh process (lazily initialised or grown package-level state). Goroutines that qframe itself starts are rewritten into simulated tasks in phase 1 (go statements with function literals, sync.WaitGroup); concurrency the injector cannot own switches phase 1 to operation granularity with a NOTE. Worlds reach 8193..33500 rows now and then in phases 1 and 2.",
   note="Trusted: the Go race detector (no false positives); the harness shares nothing between goroutines but the qframe values and a start channel. A race that needs a third party the programs never create (user code mutating an eval.Context concurrently) is misuse and out of scope."),
}

PENDING = {'C01': 'not claimed yet: the engine for this property is still being built (planned as a deterministic-simulation check, see DESIGN.md §3); it will move to checks when it runs', 'C04': 'not claimed yet: the engine for this property is still being built (planned as a deterministic-simulation check, see DESIGN.md §3); it will move to checks when it runs', 'C05': 'not claimed yet: the engine for this property is still being built (planned as a deterministic-simulation check, see DESIGN.md §3); it will move to checks when it runs', 'C11': 'not claimed yet: the engine for this property is still being built (planned as a deterministic-simulation check, see DESIGN.md §3); it will move to checks when it runs', 'C13': 'not claimed yet: the engine for this property is still being built (planned as a deterministic-simulation check, see DESIGN.md §3); it will move to checks when it runs', 'C14': 'not claimed yet: the engine for this property is still being built (planned as a deterministic-simulation check, see DESIGN.md §3); it will move to checks when it runs', 'C15': 'not claimed yet: the engine for this property is still being built (planned as a deterministic-simulation check, see DESIGN.md §3); it will move to checks when it runs', 'C19': 'not claimed yet: the engine for this property is still being built (planned as a deterministic-simulation check, see DESIGN.md §3); it will move to checks when it runs'}

def main():
    hooks_commits = subprocess.check_output(["git","-C","/repo","log","--format=%H %s"]).decode().splitlines()
    src = [l.split()[0] for l in hooks_commits if "verif hooks" in l]
    m = {
     "version": 1,
     "setup_cmd": "cd /verif && GOFLAGS=-mod=mod GOPROXY=off GOSUMDB=off GOTOOLCHAIN=local go build -o bin/vcheck ./cmd/vcheck",
     "hooks": {
       "guard": "verif",
       "enable": "go test -c -tags verif (vcheck builds every engine against a scratch copy of /repo's working tree with the tag on; package github.com/tobgu/qframe/verifhook exists only under the tag)",
       "baseline_off_cmd": "cd /repo && go test -vet=off -count=1 ./...",
       "source_commits": src,
       "add_only": True,
     },
     "engines": [],
     "checks": [],
     "not_applicable": [],
     "notes": "One technique family: deterministic simulation with fault injection (DESIGN.md). Every check rebuilds from /repo's working tree; scratch copies live under a fresh temporary directory for the duration of one command and are removed on exit. Exit 2 = machinery trouble (build, time-out, crash), never a verdict.",
    }
    engines = {}
    for pid, c in sorted(CHECKS.items()):
        m["checks"].append({
          "property_id": pid,
          "quick_cmd": "./bin/vcheck run %s --tier quick" % pid,
          "thorough_cmd": "./bin/vcheck run %s --tier thorough" % pid,
          "evidence_file": "/verif/evidence/%s.json" % pid,
          "replay_cmd_template": "./bin/vcheck replay {path}",
          "engine": c["engine"],
          "level_claimed": {"category": c["level"], "text": c["text"], "design_ref": "DESIGN.md " + c["design"]},
          "level_note": c["note"],
          "technique": c["technique"],
        })
        for e in c["engine"].split("+"):
            engines.setdefault(e, []).append(pid)
    for e, pids in sorted(engines.items()):
        m["engines"].append({"name": e, "path": "engines/" + e, "serves_properties": pids, "kind_free_text": "go test binary (rapid property) built by vcheck against a scratch copy of /repo"})
    for pid, r in sorted(NA.items()):
        m["not_applicable"].append({"property_id": pid, "reason": r})
    for pid, r in sorted(PENDING.items()):
        if pid not in CHECKS:
            m["not_applicable"].append({"property_id": pid, "reason": r})
    json.dump(m, open("/verif/MANIFEST.json", "w"), indent=1)
    print("wrote MANIFEST.json:", len(m["checks"]), "checks,", len(m["not_applicable"]), "not applicable")

main()
