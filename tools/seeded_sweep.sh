#!/bin/bash
# Re-runs every kept seeded change against the checks of the property it breaks (and neighbours
# that should see it too) and refreshes seeded/<id>/meta.json. Applies each patch to /repo and reverts it.
cd /verif || exit 2
declare -A CHECKS=(
 [c01a]="C01" [c01b]="C01" [c01c]="C01"
 [c04a-m1]="C04 C05" [c04a-m2]="C04" [c04a-m3]="C11" [c04b]="C04"
 [c05a-m1]="C05 C04" [c05a-m2]="C11" [c05a-m3]="C05 C01"
 [c11a]="C11" [c11b]="C11" [c11c]="C11"
 [c12a]="C12" [c12b]="C12" [c13a]="C13 C12" [c14a]="C14" [c15a]="C15" [c15b]="C15"
 [c19a-m1]="C19" [c19a-m2]="C15 C19" [c19a-m3]="C19"
 [c01d]="C01" [c01e]="C01" [c11d]="C11" [c11e-m1]="C11" [c11e-m2]="C11 C13" [c11e-m3]="C11"
 [c12c]="C12" [c12d]="C12" [c13b-m1]="C12 C13" [c13b]="C13" [c13c]="C13" [c14b]="C14" [c14c-m1]="C14" [c14c-m2]="C11 C14" [c14c-m3]="C11 C14"
 [r5a-m1]="C12" [r5a-m2]="C12" [r5a-m3]="C15" [r5a-m4]="C15" [r5b-m1]="C11 C04" [r5b-m2]="C14" [r5b-m3]="C05" [r5b-m4]="C04"
 [r5c-m1]="C01 C11" [r5c-m2]="C11" [r5c-m3]="C01" [r5c-m4]="C01 C11" [r5d]="C11" [r5e-m1]="C13" [r5e-m2]="C13" [r5e-m3]="C19" [r5e-m4]="C19"
 [r5f-m1]="C12" [r5f-m2]="C12" [r5f-m3]="C14" [r5f-m4]="C12"
 [r6a-m1]="C14" [r6a-m2]="C14" [r6a-m3]="C19" [r6a-m4]="C13" [r6b-m1]="C01 C11" [r6b-m2]="C11" [r6b-m3]="C01" [r6b-m4]="C04"
 [r6c-m1]="C12" [r6c-m2]="C12" [r6c-m3]="C15" [r6c-m4]="C15" [r6d-m1]="C01 C11" [r6d-m2]="C11" [r6d-m3]="C11" [r6d-m4]="C11"
 [r7a-m1]="C13 C12" [r7a-m2]="C12" [r7a-m3]="C12" [r7a-m4]="C12" [r7b-m1]="C04" [r7b-m2]="C04" [r7b-m3]="C05" [r7b-m4]="C04"
 [r7c-m1]="C01" [r7c-m2]="C11" [r7c-m3]="C11" [r7c-m4]="C11" [r7d-m1]="C15" [r7d-m2]="C19" [r7d-m3]="C19" [r7d-m4]="C19"
 [r8a-m1]="C05 C04" [r8a-m2]="C15" [r8a-m3]="C12" [r8a-m4]="C01" [r8b-m1]="C14" [r8b-m2]="C12" [r8b-m3]="C14" [r8b-m4]="C12"
 [r8c-m1]="C12" [r8c-m2]="C12" [r8c-m3]="C11 C01" [r8d-m1]="C05" [r8d-m2]="C11" [r8d-m3]="C01" [r8d-m4]="C04"
 [r9a-m1]="C04" [r9a-m2]="C01" [r9a-m3]="C04" [r9a-m4]="C12" [r9b-m1]="C12" [r9b-m2]="C04" [r9b-m3]="C12"
 [r9c-m1]="C01" [r9c-m2]="C14" [r9c-m3]="C04 C05" [r9c-m4]="C04" [r9d-m1]="C14 C04" [r9d-m2]="C04" [r9d-m3]="C13" [r9d-m4]="C11"
 [r10a-m1]="C19" [r10a-m2]="C12 C13" [r10a-m3]="C12 C13" [r10b-m1]="C04 C05" [r10b-m2]="C12" [r10b-m3]="C11" [r10b-m4]="C19"
 [r10d-m1]="C19" [r10d-m2]="C15" [r10d-m3]="C12" [r10d-m4]="C12" [r10e-m1]="C11 C01" [r10e-m2]="C04" [r10e-m3]="C01 C04" [r10e-m4]="C01"
 [r11a-m1]="C12" [r11a-m2]="C12" [r11a-m3]="C12" [r11a-m4]="C04" [r11b-m1]="C19" [r11b-m2]="C12" [r11b-m3]="C04" [r11b-m4]="C15" [r11c-m1]="C12" [r11c-m2]="C04"
 [r12a-m1]="C12" [r12a-m2]="C12 C13" [r12a-m3]="C12" [r12a-m4]="C13 C12" [r12b]="C19" [r12c-m1]="C04" [r12c-m2]="C01 C04" [r12c-m3]="C04 C05" [r12c-m4]="C05"
 [r12d-m1]="C11" [r12d-m2]="C12" [r12d-m3]="C13 C12"
 [r13a-m1]="C13" [r13a-m2]="C19" [r13a-m3]="C19" [r13b-m1]="C12" [r13b-m2]="C05 C04" [r13b-m3]="C04 C05" [r13b-m4]="C12"
 [r13c-m1]="C05 C11" [r13c-m2]="C11" [r13c-m3]="C11" [r13d-m1]="C01 C13" [r13d-m2]="C14" [r13d-m3]="C19" [r13d-m4]="C19"
 [r14a-m1]="C12 C13" [r14a-m2]="C05" [r14a-m3]="C12 C13" [r14b-m1]="C01" [r14b-m2]="C01" [r14c-m1]="C05 C04" [r14c-m2]="C11" [r14c-m3]="C14 C19"
 [r15a-m1]="C12" [r15a-m2]="C13" [r15a-m3]="C19" [r15a-m4]="C01" [r15b]="C11" [r15c-m1]="C04" [r15c-m2]="C14" [r15c-m3]="C19" [r15c-m4]="C04"
 [r16a-m1]="C12" [r16a-m2]="C04" [r16b-m1]="C19" [r16b-m2]="C12" [r16b-m3]="C14" [r16b-m4]="C19" [r16c-m1]="C04" [r16c-m2]="C04 C05" [r16c-m3]="C01"
 [c15c]="C15" [c15d-m1]="C15" [c15d-m2]="C19 C15" [c15d-m3]="C15" [c19b]="C19" [c19c]="C19" [c05b]="C05" [c04c]="C04"
)
for d in seeded/*/; do
  id=$(basename $d); grp=${id%-m*}
  checks=${CHECKS[$id]:-${CHECKS[$grp]}}
  [ -z "$checks" ] && { echo "no checks for $id"; continue; }
  if grep -q '"status": "obsolete"' $d/meta.json; then echo "$id obsolete, skipped"; continue; fi
  [ -n "$ONLY" ] && [[ ! "$id" =~ $ONLY ]] && continue
  python3 tools/run_seeded.py $id $checks
done
