#!/usr/bin/env python3
"""Confirm a sub-agent's mutant in a fresh scratch worktree of /repo HEAD and, if all three
confirmations hold (suite passes with it, demo fails with it, demo passes without it), keep it
as /verif/seeded/<id>/{patch.diff,demo_test.go,meta.json}.
usage: confirm_mutant.py <agent-out-dir> <k> <seeded-id> [--race]"""
import json, os, shutil, subprocess, sys, re
env = dict(os.environ, GOFLAGS="-mod=mod", GOPROXY="off", GOSUMDB="off", GOTOOLCHAIN="local")
out, k, sid = sys.argv[1], sys.argv[2], sys.argv[3]
race = "--race" in sys.argv
wt = "/tmp/confirm-" + sid
def sh(cmd, cwd=None, check=False):
    p = subprocess.run(cmd, shell=True, cwd=cwd, env=env, capture_output=True, text=True, errors="replace")
    if check and p.returncode != 0:
        print(p.stdout[-2000:], p.stderr[-2000:]); raise SystemExit("failed: " + cmd)
    return p
sh("git -C /repo worktree remove --force %s" % wt)
sh("git -C /repo worktree add --detach %s HEAD" % wt, check=True)
try:
    diff = os.path.join(out, "m%s.diff" % k)
    p = sh("git apply --3way %s" % diff, cwd=wt)
    if p.returncode != 0:
        p = sh("git apply %s" % diff, cwd=wt)
        if p.returncode != 0:
            raise SystemExit("patch does not apply to HEAD: " + p.stderr[:500])
    sh("git reset -q", cwd=wt)
    sh("git add -A -N .", cwd=wt)  # files the change adds belong to the patch too
    patch = sh("git diff", cwd=wt, check=True).stdout
    if not patch.strip(): raise SystemExit("empty patch")
    suite = sh("go build ./... && go test -vet=off -count=1 ./...", cwd=wt)
    if suite.returncode != 0 and "Test_StringDistribution" in suite.stdout:
        suite = sh("go build ./... && go test -vet=off -count=1 ./...", cwd=wt)  # pre-existing flaky test
    suite_ok = suite.returncode == 0
    demo_src = os.path.join(out, "m%s_demo_test.go" % k)
    shutil.copy(demo_src, os.path.join(wt, "zz_demo_test.go"))
    cmd = "go test -vet=off -count=1 %s -run 'TestDemoM%s$' ." % ("-race" if race else "", k)
    with_mut = sh(cmd, cwd=wt)
    sh("git reset -q && git checkout -q -- . && git clean -fdq -e zz_demo_test.go", cwd=wt)
    without = sh(cmd, cwd=wt)
    res = dict(suite_passes_with_change=suite_ok, demo_fails_with_change=with_mut.returncode != 0, demo_passes_without_change=without.returncode == 0)
    print(sid, res)
    if not all(res.values()):
        print("SUITE:", suite.stdout[-800:], suite.stderr[-400:]); print("WITH:", with_mut.stdout[-800:]); print("WITHOUT:", without.stdout[-800:], without.stderr[-400:])
        raise SystemExit("not confirmed")
    agent = json.load(open(os.path.join(out, "m%s.json" % k)))
    d = "/verif/seeded/" + sid
    os.makedirs(d, exist_ok=True)
    open(d + "/patch.diff", "w").write(patch)
    shutil.copy(demo_src, d + "/demo_test.go")
    meta = dict(id=sid, property=agent.get("property"), summary=agent.get("summary"), needs=agent.get("needs"),
                demo_cmd="cp demo_test.go <repo>/zz_demo_test.go && cd <repo> && " + cmd,
                confirmed=res, confirmed_how="fresh worktree of /repo HEAD %s: patch applied (3-way), `go test -vet=off -count=1 ./...` passed, demo failed; patch reverted, demo passed" % sh("git -C /repo rev-parse --short HEAD").stdout.strip(),
                source="independent sub-agent given only the property text and a scratch worktree", detected_by=[], missed_by=[])
    json.dump(meta, open(d + "/meta.json", "w"), indent=1)
finally:
    sh("git -C /repo worktree remove --force %s" % wt)

