#!/bin/bash
# usage: tools/sweep.sh "<seeds>" "<ids>" [tier]   — runs the checks for several VERIF_SEED values; prints one line per run
export GOFLAGS=-mod=mod GOPROXY=off GOSUMDB=off GOTOOLCHAIN=local
[ -x bin/vcheck ] || go build -o bin/vcheck ./cmd/vcheck || exit 2
tier=${3:-quick}
for s in $1; do for id in $2; do
  out=$(VERIF_SEED=$s ./bin/vcheck run $id --tier $tier 2>&1); rc=$?
  echo "seed=$s $id exit=$rc $(echo "$out" | grep -E 'VIOLATION|signature=|held on|trouble|KNOWN' | head -3 | tr '\n' ' ')"
  if [ $rc -ne 0 ]; then echo "$out" | tail -15; fi
done; done
