#!/bin/bash
# usage: tools/run_neutral.sh <id> <CHECK...> — applies a behaviour-preserving refactoring to /repo, runs the quick checks
# (every one must PASS: an alarm here is a false alarm of the machinery), reverts.
# NEUTRAL_REPO / NEUTRAL_HOME: a scratch worktree of /repo and a scratch copy of /verif (background sweeps)
REPO=${NEUTRAL_REPO:-/repo}; HOME_V=${NEUTRAL_HOME:-/verif}
[ "$REPO" != /repo ] && export VERIF_REPO=$REPO
cd $REPO || exit 2
[ -n "$(git status --porcelain)" ] && { echo "repo dirty"; exit 2; }
id=$1; shift
git apply --3way /verif/neutral/$id/patch.diff 2>/dev/null || git apply /verif/neutral/$id/patch.diff || { echo "$id APPLY-FAILED"; git reset -q --hard HEAD; git clean -fdq; exit 3; }
git reset -q
export GOFLAGS=-mod=mod GOPROXY=off GOSUMDB=off GOTOOLCHAIN=local
if ! go build ./... 2>/tmp/nb.err || ! go build -tags verif ./... 2>>/tmp/nb.err; then echo "$id BUILD-FAILED $(head -2 /tmp/nb.err)"; git checkout -q -- . ; git clean -fdq; exit 3; fi
cd $HOME_V
for c in "$@"; do
  out=$(./bin/vcheck run $c 2>&1); rc=$?
  echo "$id [$c] exit=$rc $(echo "$out" | grep -E 'signature=|held on|trouble' | head -2 | tr '\n' ' ' | cut -c1-220)"
  [ $rc -eq 1 ] && echo "$out" | grep -A3 VIOLATION | head -8
  [ $rc -eq 2 ] && echo "$out" | tail -12
done
cd $REPO && git checkout -q -- . && git clean -fdq
