#!/bin/bash
# Reverts each "fix:" commit of /repo in a scratch worktree (never in /repo) and runs the check that found the
# defect: every one must report the violation again (exit 1, a VIOLATION line, no KNOWN-FINDING line).
export GOFLAGS=-mod=mod GOPROXY=off GOSUMDB=off GOTOOLCHAIN=local
wt=/tmp/wt-revert-fixes
git -C /repo worktree remove --force $wt 2>/dev/null
git -C /repo worktree add --detach $wt HEAD -q || exit 2
for pair in "65bb761:C12" "000567d:C12" "8f87cb0:C14" "2289568:C15" "25042a6:C15" "bbce482:C15" "03af1b0:C04" "03af1b0:C05" "78cf26c:C11"; do
  sha=${pair%%:*}; chk=${pair##*:}
  cd $wt; git checkout -q -- . ; git clean -fdq
  if ! git revert --no-commit $sha >/dev/null 2>&1; then echo "$sha revert conflict"; git revert --abort 2>/dev/null; git reset -q --hard HEAD; continue; fi
  git reset -q
  cd /verif; out=$(VERIF_REPO=$wt ./bin/vcheck run $chk --tier quick 2>&1); rc=$?
  echo "revert $sha [$chk] exit=$rc $(echo "$out" | grep -E 'signature=|KNOWN|held on' | head -2 | tr '\n' ' ' | cut -c1-200)"
done
cd /verif; git -C /repo worktree remove --force $wt
