#!/usr/bin/env python3
"""Rewrites the table of seeded changes in DESIGN.md (between the SEEDED-TABLE markers) from seeded/*/meta.json."""
import json, glob, os, re
rows = []
for d in sorted(glob.glob('/verif/seeded/*/')):
    m = json.load(open(d + 'meta.json'))
    det = [ "%s (%s)" % (e['check'], (e.get('signature') or '').replace('signature=', '').split(' seed=')[0]) for e in m.get('detected_by', [])]
    mis = [e['check'] for e in m.get('missed_by', [])]
    summ = (m.get('summary') or '').replace('|', '/').replace('\n', ' ')
    if len(summ) > 170: summ = summ[:167] + '...'
    needs = (m.get('needs') or '').replace('|', '/').replace('\n', ' ')
    if len(needs) > 150: needs = needs[:147] + '...'
    if m.get('status') == 'obsolete':
        det = ['(obsolete: ' + m.get('obsolete_reason', '')[:120] + '...)']
        mis = []
    if m.get('note'):
        mis = mis + ['note: ' + m['note']]
    rows.append("| %s | %s | %s | %s | %s | %s |" % (m['id'], m.get('property'), summ, needs, '; '.join(det) or '—', ', '.join(mis) or '—'))
table = "| id | breaks | change | needs | caught by (signature) | not caught by |\n|---|---|---|---|---|---|\n" + "\n".join(rows)
p = '/verif/DESIGN.md'
s = open(p).read()
a, b = '<!-- SEEDED-TABLE-BEGIN -->', '<!-- SEEDED-TABLE-END -->'
if a in s:
    s = s[:s.index(a) + len(a)] + "\n" + table + "\n" + s[s.index(b):]
    open(p, 'w').write(s)
    print("table updated:", len(rows), "rows")
else:
    print(table)
