#!/usr/bin/env python3
"""Apply each seeded change to /repo, run the given quick checks, revert, and record which checks
caught it in seeded/<id>/meta.json.   usage: run_seeded.py <seeded-id> <CHECK> [CHECK...]"""
import json, os, subprocess, sys, time
sid, checks = sys.argv[1], sys.argv[2:]
d = "/verif/seeded/" + sid
# SEEDED_REPO / SEEDED_HOME: run against a scratch worktree of /repo and a scratch copy of /verif
# (a long sweep in the background while /repo and /verif stay free); results still go to /verif/seeded
REPO = os.environ.get("SEEDED_REPO", "/repo")
HOME = os.environ.get("SEEDED_HOME", "/verif")
if REPO != "/repo":
    os.environ["VERIF_REPO"] = REPO
def sh(cmd, cwd=None):
    return subprocess.run(cmd, shell=True, cwd=cwd, capture_output=True, text=True, errors="replace")
if sh("git status --porcelain", REPO).stdout.strip():
    raise SystemExit("/repo is dirty, refusing")
p = sh("git apply %s/patch.diff" % d, REPO)
if p.returncode != 0:
    raise SystemExit("patch does not apply: " + p.stderr)
meta = json.load(open(d + "/meta.json"))
try:
    for c in checks:
        t0 = time.time()
        r = sh("./bin/vcheck run %s --tier quick" % c, HOME)
        sig = [l.strip() for l in r.stdout.splitlines() if l.strip().startswith("signature=")]
        entry = dict(check=c, exit=r.returncode, seconds=round(time.time() - t0, 1), signature=sig[0] if sig else None)
        print(sid, entry)
        for key in ("detected_by", "missed_by", "trouble"):
            meta[key] = [e for e in meta.get(key, []) if e.get("check") != c]
        if r.returncode == 1:
            meta["detected_by"].append(entry)
        elif r.returncode == 0:
            meta["missed_by"].append(entry)
        else:
            meta.setdefault("trouble", []).append(dict(entry, tail=r.stdout[-600:] + r.stderr[-600:]))
finally:
    sh("git checkout -q -- . && git clean -fdq", REPO)
    json.dump(meta, open(d + "/meta.json", "w"), indent=1)
if sh("git status --porcelain", REPO).stdout.strip():
    print("WARNING: /repo not clean")
