#!/bin/bash
# usage: tools/trymutant.sh <patch.diff> <ID> [ID...]   — applies the patch to /repo, runs the quick checks, reverts.
set -u
patch=$1; shift
cd /repo || exit 2
if [ -n "$(git status --porcelain)" ]; then echo "repo dirty, refusing"; exit 2; fi
if ! git apply --3way "$patch" 2>/tmp/apply.err; then
  if ! git apply "$patch" 2>>/tmp/apply.err; then echo "APPLY-FAILED $(head -3 /tmp/apply.err)"; git checkout -q -- . ; git reset -q; exit 3; fi
fi
git reset -q
cd /verif
for id in "$@"; do
  out=$(VERIF_CHECKS=${VERIF_CHECKS:-} timeout 1200 ./bin/vcheck run "$id" 2>&1); rc=$?
  echo "[$id] exit=$rc $(echo "$out" | grep -E 'VIOLATION|signature=|held on|trouble' | head -4 | tr '\n' ' ')"
done
cd /repo && git checkout -q -- . && git clean -fdq -- . 2>/dev/null
[ -z "$(git status --porcelain)" ] || echo "WARNING repo not clean after revert"
