// Package core holds what every engine shares: the seed plumbing, the
// sub-stream PRNG, run statistics, probes, the violation/known-finding
// protocol and the trace file. Nothing in here draws from rapid or reads a
// clock on a logging path.
package core

import (
	"encoding/binary"
	"encoding/json"
	"fmt"
	"hash/fnv"
	"os"
	"sort"
	"strconv"
	"strings"
	"time"
)

// SplitMix is the sub-stream PRNG used when one plan needs thousands of
// micro-decisions: its 64-bit key is itself a single rapid draw.
type SplitMix struct{ s uint64 }

func NewSplitMix(key uint64) *SplitMix { return &SplitMix{s: key} }

func (r *SplitMix) Uint64() uint64 {
	r.s += 0x9e3779b97f4a7c15
	z := r.s
	z = (z ^ (z >> 30)) * 0xbf58476d1ce4e5b9
	z = (z ^ (z >> 27)) * 0x94d049bb133111eb
	return z ^ (z >> 31)
}

// Intn returns a value in [0,n).
func (r *SplitMix) Intn(n int) int {
	if n <= 1 {
		return 0
	}
	return int(r.Uint64() % uint64(n))
}

// Mix derives a seed from a base seed and labels.
func Mix(base uint64, labels ...uint64) uint64 {
	r := NewSplitMix(base)
	out := r.Uint64()
	for _, l := range labels {
		r.s ^= l * 0xd6e8feb86659fd93
		out ^= r.Uint64()
	}
	if out == 0 {
		out = 1
	}
	return out
}

// Hash64 hashes arbitrary parts into a signature.
func Hash64(parts ...interface{}) uint64 {
	h := fnv.New64a()
	var b [8]byte
	for _, p := range parts {
		switch v := p.(type) {
		case string:
			h.Write([]byte(v))
		case []byte:
			h.Write(v)
		case int:
			binary.LittleEndian.PutUint64(b[:], uint64(v))
			h.Write(b[:])
		case uint64:
			binary.LittleEndian.PutUint64(b[:], v)
			h.Write(b[:])
		case bool:
			if v {
				h.Write([]byte{1})
			} else {
				h.Write([]byte{0})
			}
		default:
			fmt.Fprintf(h, "%v", v)
		}
		h.Write([]byte{0xfe})
	}
	return h.Sum64()
}

// Stats is what one worker process reports to the driver.
type Stats struct {
	Property    string            `json:"property"`
	Engine      string            `json:"engine"`
	Seed        uint64            `json:"seed"`
	Evaluations int64             `json:"evaluations"`
	Nontrivial  int64             `json:"nontrivial"`
	SimSteps    int64             `json:"sim_steps"`
	Faults      map[string]int64  `json:"faults_fired"`
	Configured  map[string]int64  `json:"faults_configured"`
	Probes      map[string]int64  `json:"probes"`
	Known       map[string]int64  `json:"known_hits"`
	KnownText   map[string]string `json:"known_text"`
	Samples     []json.RawMessage `json:"samples"`
	Violations  int64             `json:"violations"`
	WallS       float64           `json:"wall_s"`
	SigsCapped  bool              `json:"sigs_capped"`
	Extra       map[string]int64  `json:"extra"`
}

const maxSigs = 3_000_000

var (
	S       = newStats()
	sigs    = map[uint64]struct{}{}
	started = time.Now()
	known   []KnownEntry
)

func newStats() *Stats {
	return &Stats{Faults: map[string]int64{}, Configured: map[string]int64{}, Probes: map[string]int64{},
		Known: map[string]int64{}, KnownText: map[string]string{}, Extra: map[string]int64{}}
}

// KnownEntry mirrors an entry of /verif/known_findings.json.
type KnownEntry struct {
	Property  string `json:"property"`
	Status    string `json:"status"` // "known" | "fixed"
	Signature string `json:"signature"`
	Commit    string `json:"commit,omitempty"`
	Text      string `json:"text"`
}

// Init is called from TestMain of every engine.
func Init(engine string) {
	S.Engine = engine
	S.Property = os.Getenv("VERIF_PROP")
	S.Seed, _ = strconv.ParseUint(os.Getenv("VERIF_WORKER_SEED"), 10, 64)
	if p := os.Getenv("VERIF_KNOWN"); p != "" {
		if b, err := os.ReadFile(p); err == nil {
			var all []KnownEntry
			if json.Unmarshal(b, &all) == nil {
				for _, e := range all {
					if e.Status == "known" {
						known = append(known, e)
					}
				}
			}
		}
	}
}

// Tier reports the tier the driver asked for.
func Tier() string {
	if t := os.Getenv("VERIF_TIER"); t == "thorough" {
		return "thorough"
	}
	return "quick"
}

func Thorough() bool { return Tier() == "thorough" }

// EnvInt reads an integer knob set by the driver.
func EnvInt(name string, def int) int {
	if v, err := strconv.Atoi(os.Getenv(name)); err == nil {
		return v
	}
	return def
}

func Eval()                  { S.Evaluations++ }
func Steps(n int)            { S.SimSteps += int64(n) }
func Probe(name string)      { S.Probes[name]++ }
func ProbeN(n string, k int) { S.Probes[n] += int64(k) }
func Fault(kind string)      { S.Faults[kind]++ }
func Configured(k string)    { S.Configured[k]++ }

// Nontrivial records the signature of a run in which the varied dimension
// was non-trivial; distinct signatures are counted by the driver.
func Nontrivial(sig uint64) {
	S.Nontrivial++
	if len(sigs) < maxSigs {
		sigs[sig] = struct{}{}
	} else {
		S.SigsCapped = true
	}
}

// Sample keeps the first few cases written out.
func Sample(v interface{}) {
	if len(S.Samples) >= 4 {
		return
	}
	if b, err := json.Marshal(v); err == nil {
		S.Samples = append(S.Samples, b)
	}
}

// Flush writes the stats and the signature set where the driver expects them.
func Flush() {
	S.WallS = time.Since(started).Seconds()
	S.Extra["eventlog_digest"] = int64(eventDigest >> 1)
	if p := os.Getenv("VERIF_STATS"); p != "" {
		b, _ := json.Marshal(S)
		_ = os.WriteFile(p, b, 0o644)
		buf := make([]byte, 0, 8*len(sigs))
		keys := make([]uint64, 0, len(sigs))
		for k := range sigs {
			keys = append(keys, k)
		}
		sort.Slice(keys, func(i, j int) bool { return keys[i] < keys[j] })
		for _, k := range keys {
			buf = binary.LittleEndian.AppendUint64(buf, k)
		}
		_ = os.WriteFile(p+".sigs", buf, 0o644)
	}
}

// Failer is the part of *rapid.T / *testing.T a violation needs.
type Failer interface {
	Fatalf(format string, args ...interface{})
	Logf(format string, args ...interface{})
}

// Trace is the readable companion of a replay file.
type Trace struct {
	Property  string      `json:"property"`
	Engine    string      `json:"engine"`
	Signature string      `json:"signature"`
	Message   string      `json:"message"`
	Case      interface{} `json:"case"`
}

// Violation reports a property violation. sig names the oracle clause and a
// normalised descriptor of what failed; msg is the human text; c is the
// case (program, schedule, fault plan, expected vs observed). If sig matches
// a "known" entry of known_findings.json the run continues and the hit is
// counted; otherwise the trace is written and the rapid check fails, which
// makes rapid shrink and write its replay file.
func Violation(t Failer, sig, msg string, c interface{}) {
	for _, k := range known {
		if k.Property == S.Property && strings.HasPrefix(sig, k.Signature) {
			S.Known[k.Signature]++
			S.KnownText[k.Signature] = k.Text
			return
		}
	}
	S.Violations++
	if p := os.Getenv("VERIF_TRACE"); p != "" {
		b, err := json.MarshalIndent(Trace{Property: S.Property, Engine: S.Engine, Signature: sig, Message: msg, Case: c}, "", " ")
		if err != nil {
			b, _ = json.MarshalIndent(Trace{Property: S.Property, Engine: S.Engine, Signature: sig, Message: msg, Case: fmt.Sprintf("%+v", c)}, "", " ")
		}
		_ = os.WriteFile(p, b, 0o644)
	}
	t.Fatalf("VIOLATION-SIG %s :: %s", sig, msg)
}

var eventDigest uint64

// Event folds one event into the event-log digest that the determinism
// self-test compares across processes. It never draws and never reads a clock.
func Event(parts ...interface{}) {
	eventDigest = Hash64(append([]interface{}{eventDigest}, parts...)...)
}
