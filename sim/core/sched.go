package core

import (
	"fmt"
	"os"
	"runtime"
	"runtime/debug"
)

// The cooperative scheduler: every simulated caller thread ("task") is a real
// goroutine that runs only while it holds the baton. Exactly one goroutine —
// a task or the scheduler itself — runs at any instant; every hand-off is an
// unbuffered channel operation. Which task runs next and for how many
// scheduling points is decided by a Policy on the scheduler goroutine (the
// rapid test goroutine), never by a task.

// Policy decides the interleaving.
type Policy interface {
	// Next is given the runnable task ids (ascending) and the global step
	// count and returns the task to run and the number of scheduling points
	// it may pass before it must hand the baton back (>=1).
	Next(runnable []int, step int64, last int) (task int, budget int64)
	Name() string
}

type taskState int

const (
	tsReady taskState = iota
	tsBlocked
	tsDone
)

// Task is one simulated caller thread.
type Task struct {
	ID     int
	Name   string
	fn     func()
	resume chan struct{}
	state  taskState
	cond   func() bool
	budget int64
	// Panic is set when the task's function panicked (value and stack).
	Panic      interface{}
	PanicStack string
	started    bool
	// Site is the last scheduling point the task passed (-1: explicit point).
	Site int
	// InOp is maintained by the engines: >0 while the task is inside an operation under test.
	InOp int
	// Steps counts the scheduling points this task passed.
	Steps int64
	// Parent is the task that spawned this one (nil for the tasks of the harness).
	Parent *Task
	gid    uint64
}

var noForeign = os.Getenv("VERIF_NOFOREIGN") != ""

// goid parses the id of the calling goroutine out of its stack header (about
// a microsecond; used at the few places where the simulated environment is
// entered, never at injected scheduling points).
func goid() uint64 {
	var buf [40]byte
	n := runtime.Stack(buf[:], false)
	var id uint64
	for _, c := range buf[len("goroutine "):n] {
		if c < '0' || c > '9' {
			break
		}
		id = id*10 + uint64(c-'0')
	}
	return id
}

// Foreign reports whether the caller is a goroutine that is not the running
// task: a goroutine the code under test started on its own, in a build where
// go statements are not rewritten. Such a goroutine must not enter the
// scheduler (it does not hold the baton).
func (s *Sched) Foreign() bool {
	t := s.cur
	if t == nil || noForeign {
		return false
	}
	// fast path: no goroutine exists beyond those that were there when the
	// run began and the live tasks
	if runtime.NumGoroutine() <= s.baseG+s.liveG {
		return false
	}
	return t.gid != goid()
}

type killSentinel struct{}

// Sched is one simulated execution.
type Sched struct {
	tasks  []*Task
	cur    *Task
	back   chan struct{}
	policy Policy
	// Steps counts scheduling points passed by tasks.
	Steps int64
	// Switches counts hand-offs to a different task than the previous one.
	Switches int64
	// SwitchesInOp counts hand-offs that pre-empted a task inside an operation.
	SwitchesInOp int64
	digest       uint64
	schedSig     uint64
	killing      bool
	MaxSteps     int64
	// OnHandback, if set, runs on the scheduler goroutine every time a task
	// hands the baton back (no task is running: cur == nil).
	OnHandback func(t *Task)
	Deadlock   bool
	Overrun    bool
	last       int
	// Spawned counts the tasks created by Spawn (goroutines the code under test started).
	Spawned int
	baseG   int // goroutines alive when the scheduler was created
	liveG   int // task goroutines started and not yet finished
}

func NewSched(p Policy) *Sched {
	return &Sched{back: make(chan struct{}), policy: p, MaxSteps: 5_000_000, digest: 0xcbf29ce484222325, last: -1, baseG: runtime.NumGoroutine()}
}

// Go registers a task; it starts when the scheduler first picks it.
func (s *Sched) Go(name string, fn func()) *Task {
	t := &Task{ID: len(s.tasks), Name: name, fn: fn, resume: make(chan struct{}), Site: -1}
	s.tasks = append(s.tasks, t)
	return t
}

// SpawnSite is the site id of the scheduling point right after a spawn.
const SpawnSite = -3

// Spawn is what a go statement inside the code under test becomes: the body
// is a new task, runnable from now on; which of parent and child proceeds is
// the policy's decision like everything else. The child counts as being inside
// the parent's operation. Outside a task (harness code between scheduling
// points) the body runs at once.
func (s *Sched) Spawn(f func()) {
	t := s.cur
	if t == nil {
		f()
		return
	}
	s.Spawned++
	child := s.Go(fmt.Sprintf("%s/go%d", t.Name, s.Spawned), f)
	child.Parent = t
	child.InOp = t.InOp
	s.Yield(SpawnSite)
}

// Current returns the running task, nil on the scheduler goroutine.
func (s *Sched) Current() *Task { return s.cur }

// Yield is a scheduling point (the injected simhook.Yield lands here). It is
// a no-op when called outside a task (harness code on the scheduler
// goroutine, e.g. observation of frames, is never pre-empted).
func (s *Sched) Yield(site int) {
	t := s.cur
	if t == nil {
		return
	}
	s.Steps++
	t.Steps++
	s.digest = (s.digest ^ uint64(site+2) ^ uint64(t.ID)<<32) * 0x100000001b3
	t.Site = site
	t.budget--
	if t.budget > 0 && s.Steps < s.MaxSteps {
		return
	}
	s.handback(t)
}

// Atomic runs f without scheduling points: harness code that runs on a task
// goroutine (taking a snapshot, observing a result) must not hand the baton
// over in the middle. On the scheduler goroutine it just calls f.
func (s *Sched) Atomic(f func()) {
	t := s.cur
	if t == nil {
		f()
		return
	}
	s.cur = nil
	defer func() { s.cur = t }()
	f()
}

// Block parks the calling task until cond() holds (evaluated on the
// scheduler goroutine).
func (s *Sched) Block(cond func() bool) {
	t := s.cur
	if t == nil {
		panic("core.Sched.Block called outside a task")
	}
	if cond() {
		return
	}
	t.state = tsBlocked
	t.cond = cond
	s.Steps++
	s.digest = (s.digest ^ 0xb10c ^ uint64(t.ID)<<32) * 0x100000001b3
	s.handback(t)
}

func (s *Sched) handback(t *Task) {
	s.cur = nil
	s.back <- struct{}{}
	<-t.resume
	if s.killing {
		panic(killSentinel{})
	}
	s.cur = t
}

func (s *Sched) start(t *Task) {
	t.started = true
	s.liveG++
	go func() {
		t.gid = goid()
		<-t.resume
		defer func() {
			if r := recover(); r != nil {
				if _, ok := r.(killSentinel); !ok {
					t.Panic = r
					t.PanicStack = string(debug.Stack())
				}
			}
			t.state = tsDone
			s.liveG--
			if t.Parent != nil {
				t.InOp = 0
			}
			s.cur = nil
			s.back <- struct{}{}
		}()
		if s.killing {
			return
		}
		s.cur = t
		t.fn()
	}()
}

// Run executes all tasks to completion under the policy. It returns false if
// the run ended in a deadlock (tasks blocked forever) or exceeded MaxSteps.
func (s *Sched) Run() bool {
	for {
		var runnable []int
		alive := 0
		for _, t := range s.tasks {
			if t.state == tsDone {
				continue
			}
			alive++
			if t.state == tsBlocked {
				if t.cond() {
					t.state = tsReady
					t.cond = nil
				} else {
					continue
				}
			}
			runnable = append(runnable, t.ID)
		}
		if alive == 0 {
			return true
		}
		if len(runnable) == 0 {
			s.Deadlock = true
			s.Kill()
			return false
		}
		if s.Steps >= s.MaxSteps {
			s.Overrun = true
			s.Kill()
			return false
		}
		id, budget := s.policy.Next(runnable, s.Steps, s.last)
		if budget < 1 {
			budget = 1
		}
		t := s.tasks[id]
		if s.last != id {
			if s.last >= 0 {
				s.Switches++
				if lt := s.tasks[s.last]; lt.state != tsDone && lt.InOp > 0 {
					s.SwitchesInOp++
				}
				s.schedSig = (s.schedSig ^ uint64(s.Steps)<<16 ^ uint64(id)<<8 ^ uint64(s.tasks[s.last].Site+2)) * 0x100000001b3
			}
			s.last = id
		}
		t.budget = budget
		if !t.started {
			s.start(t)
		}
		t.resume <- struct{}{}
		<-s.back
		if s.OnHandback != nil {
			s.OnHandback(t)
		}
	}
}

// Kill unwinds every parked task (used when a run is abandoned).
func (s *Sched) Kill() {
	s.killing = true
	for _, t := range s.tasks {
		if t.state == tsDone {
			continue
		}
		if !t.started {
			t.state = tsDone
			continue
		}
		t.resume <- struct{}{}
		<-s.back
	}
}

// Digest is the event-log digest: every scheduling point (task, site) in order.
func (s *Sched) Digest() uint64 { return s.digest ^ uint64(s.Steps) }

// ScheduleSig identifies the context-switch sequence (step, task, site).
func (s *Sched) ScheduleSig() uint64 { return s.schedSig }

// Tasks returns the tasks.
func (s *Sched) Tasks() []*Task { return s.tasks }

// FirstPanic returns the first task that panicked, if any.
func (s *Sched) FirstPanic() *Task {
	for _, t := range s.tasks {
		if t.Panic != nil {
			return t
		}
	}
	return nil
}

// ---- policies ----

// Sequential runs the tasks one after the other (the "alone" reference).
type Sequential struct{}

func (Sequential) Next(runnable []int, step int64, last int) (int, int64) {
	return runnable[0], 1 << 60
}
func (Sequential) Name() string { return "sequential" }

// PCT is probabilistic concurrency testing: random priorities, d change
// points; the highest-priority runnable task runs, at a change point the
// running task drops below everyone.
type PCT struct {
	Prio   []int   `json:"prio"`
	Points []int64 `json:"points"` // ascending global step numbers
	low    int
}

func (p *PCT) Name() string { return fmt.Sprintf("pct-%d", len(p.Points)) }

func (p *PCT) Next(runnable []int, step int64, last int) (int, int64) {
	// consume change points that have been reached: the task that was
	// running drops to the lowest priority
	for len(p.Points) > 0 && p.Points[0] <= step {
		p.Points = p.Points[1:]
		if last >= 0 {
			p.low--
			p.Prio[last] = p.low
		}
	}
	// tasks spawned during the run: a priority between the others', fixed by the id
	if top := runnable[len(runnable)-1]; top >= len(p.Prio) {
		n0 := len(p.Prio)
		for id := n0; id <= top; id++ {
			x := SplitMix{s: uint64(id)*0x9e3779b97f4a7c15 + uint64(n0)}
			p.Prio = append(p.Prio, int(x.Uint64()%uint64(2*n0+3))-1)
		}
	}
	best := runnable[0]
	for _, id := range runnable[1:] {
		if p.Prio[id] > p.Prio[best] {
			best = id
		}
	}
	budget := int64(1 << 60)
	if len(p.Points) > 0 {
		budget = p.Points[0] - step
	}
	return best, budget
}

// RandomWalk switches with probability 1/PInv at every scheduling point; the
// coin flips come from a sub-stream keyed by one rapid draw.
type RandomWalk struct {
	PInv int
	R    *SplitMix
}

func (p *RandomWalk) Name() string { return fmt.Sprintf("walk-1/%d", p.PInv) }

func (p *RandomWalk) Next(runnable []int, step int64, last int) (int, int64) {
	id := runnable[p.R.Intn(len(runnable))]
	// geometric run length with mean PInv
	budget := int64(1)
	for p.R.Intn(p.PInv) != 0 && budget < 1<<20 {
		budget++
	}
	return id, budget
}
