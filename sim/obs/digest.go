package obs

import (
	"math"

	"github.com/tobgu/qframe"
	"github.com/tobgu/qframe/types"
)

const (
	fnvOff   = 0xcbf29ce484222325
	fnvPrime = 0x100000001b3
)

func mixU(h, x uint64) uint64 {
	for i := 0; i < 8; i++ {
		h = (h ^ (x & 0xff)) * fnvPrime
		x >>= 8
	}
	return h
}

func mixS(h uint64, s string) uint64 {
	for i := 0; i < len(s); i++ {
		h = (h ^ uint64(s[i])) * fnvPrime
	}
	return (h ^ 0xff) * fnvPrime
}

// Digest is a cheap fingerprint of everything Of observes (same public
// accessors, no allocation per cell). Two frames with equal Digest are taken
// to be the same observation; on a mismatch the full observations are
// compared for the report.
func Digest(qf qframe.QFrame) (h uint64) {
	h = fnvOff
	defer func() {
		if r := recover(); r != nil {
			h = mixS(h, "panic")
		}
	}()
	if qf.Err != nil {
		return mixS(mixS(h, "err"), qf.Err.Error())
	}
	n := qf.Len()
	h = mixU(h, uint64(n))
	names := qf.ColumnNames()
	typs := qf.ColumnTypes()
	for c, name := range names {
		h = mixS(h, name)
		h = mixS(h, string(typs[c]))
		switch typs[c] {
		case types.Int:
			v, err := qf.IntView(name)
			if err != nil {
				return mixS(h, "viewerr")
			}
			h = mixU(h, uint64(v.Len()))
			for i := 0; i < v.Len(); i++ {
				h = mixU(h, uint64(v.ItemAt(i)))
			}
		case types.Float:
			v, err := qf.FloatView(name)
			if err != nil {
				return mixS(h, "viewerr")
			}
			h = mixU(h, uint64(v.Len()))
			for i := 0; i < v.Len(); i++ {
				h = mixU(h, math.Float64bits(v.ItemAt(i)))
			}
		case types.Bool:
			v, err := qf.BoolView(name)
			if err != nil {
				return mixS(h, "viewerr")
			}
			h = mixU(h, uint64(v.Len()))
			for i := 0; i < v.Len(); i++ {
				if v.ItemAt(i) {
					h = mixU(h, 1)
				} else {
					h = mixU(h, 0)
				}
			}
		case types.String:
			v, err := qf.StringView(name)
			if err != nil {
				return mixS(h, "viewerr")
			}
			h = mixU(h, uint64(v.Len()))
			for i := 0; i < v.Len(); i++ {
				if p := v.ItemAt(i); p == nil {
					h = mixU(h, 0xdead)
				} else {
					h = mixS(h, *p)
				}
			}
		case types.Enum:
			v, err := qf.EnumView(name)
			if err != nil {
				return mixS(h, "viewerr")
			}
			h = mixU(h, uint64(v.Len()))
			for i := 0; i < v.Len(); i++ {
				if p := v.ItemAt(i); p == nil {
					h = mixU(h, 0xdead)
				} else {
					h = mixS(h, *p)
				}
			}
		}
	}
	return h
}
