// Package obs observes a frame through the public API only: Err, Len,
// ColumnNames, ColumnTypes and the typed views. QFrame.Equals is never used
// as an oracle.
package obs

import (
	"fmt"
	"math"
	"strconv"

	"github.com/tobgu/qframe"
	"github.com/tobgu/qframe/types"
)

// Frame is a full observation.
type Frame struct {
	HasErr bool       `json:"has_err"`
	Err    string     `json:"err,omitempty"`
	Len    int        `json:"len"`
	Names  []string   `json:"names"`
	Types  []string   `json:"types"`
	Cols   [][]string `json:"cols"` // Cols[c][r], canonical text of each cell
	Bad    string     `json:"bad,omitempty"`
}

// FloatText is the canonical text of a float cell: bit pattern, exact.
func FloatText(f float64) string {
	return "f:" + strconv.FormatUint(math.Float64bits(f), 16)
}

func StrText(p *string) string {
	if p == nil {
		return "null"
	}
	return "s:" + strconv.Quote(*p)
}

// Of observes qf. A panic inside an accessor is recorded in Bad (an
// observation never takes the worker down).
func Of(qf qframe.QFrame) (fr *Frame) {
	fr = &Frame{}
	defer func() {
		if r := recover(); r != nil {
			fr.Bad = fmt.Sprintf("panic while observing: %v", r)
		}
	}()
	if qf.Err != nil {
		fr.HasErr = true
		fr.Err = qf.Err.Error()
		fr.Len = qf.Len()
		return fr
	}
	fr.Len = qf.Len()
	fr.Names = qf.ColumnNames()
	for _, t := range qf.ColumnTypes() {
		fr.Types = append(fr.Types, string(t))
	}
	n := fr.Len
	for c, name := range fr.Names {
		cells := make([]string, 0, n)
		switch types.DataType(fr.Types[c]) {
		case types.Int:
			v, err := qf.IntView(name)
			if err != nil {
				fr.Bad = err.Error()
				return fr
			}
			if v.Len() != n {
				fr.Bad = fmt.Sprintf("view len %d != frame len %d (col %q)", v.Len(), n, name)
			}
			for i := 0; i < v.Len(); i++ {
				cells = append(cells, "i:"+strconv.Itoa(v.ItemAt(i)))
			}
		case types.Float:
			v, err := qf.FloatView(name)
			if err != nil {
				fr.Bad = err.Error()
				return fr
			}
			if v.Len() != n {
				fr.Bad = fmt.Sprintf("view len %d != frame len %d (col %q)", v.Len(), n, name)
			}
			for i := 0; i < v.Len(); i++ {
				cells = append(cells, FloatText(v.ItemAt(i)))
			}
		case types.Bool:
			v, err := qf.BoolView(name)
			if err != nil {
				fr.Bad = err.Error()
				return fr
			}
			if v.Len() != n {
				fr.Bad = fmt.Sprintf("view len %d != frame len %d (col %q)", v.Len(), n, name)
			}
			for i := 0; i < v.Len(); i++ {
				cells = append(cells, "b:"+strconv.FormatBool(v.ItemAt(i)))
			}
		case types.String:
			v, err := qf.StringView(name)
			if err != nil {
				fr.Bad = err.Error()
				return fr
			}
			if v.Len() != n {
				fr.Bad = fmt.Sprintf("view len %d != frame len %d (col %q)", v.Len(), n, name)
			}
			for i := 0; i < v.Len(); i++ {
				cells = append(cells, StrText(v.ItemAt(i)))
			}
		case types.Enum:
			v, err := qf.EnumView(name)
			if err != nil {
				fr.Bad = err.Error()
				return fr
			}
			if v.Len() != n {
				fr.Bad = fmt.Sprintf("view len %d != frame len %d (col %q)", v.Len(), n, name)
			}
			for i := 0; i < v.Len(); i++ {
				cells = append(cells, StrText(v.ItemAt(i)))
			}
		default:
			// untyped zero-row column (ReadCSV of a header-only document)
		}
		fr.Cols = append(fr.Cols, cells)
	}
	return fr
}

// Diff returns "" when a and b are the same observation, otherwise the first
// difference.
func Diff(a, b *Frame) string {
	if a.Bad != "" || b.Bad != "" {
		if a.Bad != b.Bad {
			return fmt.Sprintf("observation failed: %q vs %q", a.Bad, b.Bad)
		}
	}
	if a.HasErr != b.HasErr {
		return fmt.Sprintf("Err presence differs: %v (%s) vs %v (%s)", a.HasErr, a.Err, b.HasErr, b.Err)
	}
	if a.HasErr {
		if a.Err != b.Err {
			return fmt.Sprintf("Err text differs: %q vs %q", a.Err, b.Err)
		}
		if a.Len != b.Len {
			return fmt.Sprintf("Len of failed frame differs: %d vs %d", a.Len, b.Len)
		}
		return ""
	}
	if a.Len != b.Len {
		return fmt.Sprintf("Len differs: %d vs %d", a.Len, b.Len)
	}
	if len(a.Names) != len(b.Names) {
		return fmt.Sprintf("column count differs: %q vs %q", a.Names, b.Names)
	}
	for i := range a.Names {
		if a.Names[i] != b.Names[i] {
			return fmt.Sprintf("column %d name differs: %q vs %q", i, a.Names[i], b.Names[i])
		}
		if a.Types[i] != b.Types[i] {
			return fmt.Sprintf("column %q type differs: %s vs %s", a.Names[i], a.Types[i], b.Types[i])
		}
	}
	for c := range a.Cols {
		if c >= len(b.Cols) {
			return "column data missing"
		}
		if len(a.Cols[c]) != len(b.Cols[c]) {
			return fmt.Sprintf("column %q: %d vs %d cells", a.Names[c], len(a.Cols[c]), len(b.Cols[c]))
		}
		for r := range a.Cols[c] {
			if a.Cols[c][r] != b.Cols[c][r] {
				return fmt.Sprintf("cell [%q,%d] differs: %s vs %s", a.Names[c], r, a.Cols[c][r], b.Cols[c][r])
			}
		}
	}
	return ""
}

// Row returns the canonical text of row r (all columns).
func (f *Frame) Row(r int) string {
	s := ""
	for c := range f.Cols {
		if c > 0 {
			s += "|"
		}
		if r < len(f.Cols[c]) {
			s += f.Cols[c][r]
		}
	}
	return s
}

// Col returns the cells of the named column, or nil.
func (f *Frame) Col(name string) []string {
	for i, n := range f.Names {
		if n == name && i < len(f.Cols) {
			return f.Cols[i]
		}
	}
	return nil
}
