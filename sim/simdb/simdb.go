// Package simdb is the simulated database: an in-memory database/sql driver
// that parses and stores what it is given, records every statement, varies
// the legal driver behaviours per run, and injects faults at a chosen driver
// call. Everything above the driver interface (connection pool, Tx, Stmt,
// Rows, parameter conversion) is the real database/sql.
package simdb

import (
	"context"
	"database/sql"
	"database/sql/driver"
	"errors"
	"fmt"
	"io"
	"strconv"
	"strings"
)

// Config is the per-run driver variation.
type Config struct {
	// ExecMode: 0 = ExecerContext fast path, 1 = ExecerContext present but
	// returns driver.ErrSkip (database/sql falls back to Prepare), 2 = the
	// connection does not implement ExecerContext at all.
	ExecMode int `json:"exec_mode"`
	// NumInputUnknown: Stmt.NumInput returns -1.
	NumInputUnknown bool `json:"num_input_unknown"`
	// TextAsBytes: text columns are delivered as []byte from a buffer the
	// driver reuses for every row (legal: the slice is only valid until the
	// next call to Next).
	TextAsBytes bool `json:"text_as_bytes"`
	// BoolAsInt: bools are stored and delivered as int64 0/1 (SQLite style).
	BoolAsInt bool `json:"bool_as_int"`
	// TruthyInts (with BoolAsInt): a stored true is delivered as some
	// non-zero integer (1, -1, 2, 255, the smallest int64), the way a store
	// without a boolean type keeps whatever integer was written.
	TruthyInts bool `json:"truthy_ints,omitempty"`
	// FloatAsText: floats are stored and delivered as decimal text (a NUMERIC
	// column of a driver that returns text), to be read with StringToFloat.
	FloatAsText bool `json:"float_as_text"`
	// Placeholder/escape dialect the statement parser accepts.
	Escape       rune `json:"escape"`
	Incrementing bool `json:"incrementing"`
}

// Fault makes the Nth driver call (0-based, counted over Ops) fail.
type Fault struct {
	At   int    `json:"at"`
	Kind string `json:"kind"` // "opaque" | "badconn"
	Err  error  `json:"-"`
}

// Op is one driver call that reached the simulated database.
type Op struct {
	Kind string `json:"kind"` // prepare exec stmt-exec query next columns begin commit rollback
	Text string `json:"text,omitempty"`
}

// Stmt is one executed statement.
type Stmt struct {
	Text string         `json:"text"`
	Args []driver.Value `json:"args"`
	Via  string         `json:"via"`
}

// Table is a stored table.
type Table struct {
	Cols []string
	Rows [][]driver.Value
}

// DB is one simulated database instance.
type DB struct {
	Cfg    Config
	Fault  *Fault
	Tables map[string]*Table
	Ops    []Op
	Stmts  []Stmt
	Fired  bool
	// ParseErrors collects statements the strict grammar rejected.
	ParseErrors []string
	textBuf     []byte
	committed   bool
	rolledBack  bool
	truthy      int
	// QueryArgs are the arguments of the last query.
	QueryArgs []driver.Value
}

func New(cfg Config) *DB {
	return &DB{Cfg: cfg, Tables: map[string]*Table{}}
}

// Open returns a *sql.DB over the simulated database.
func (d *DB) Open() *sql.DB {
	db := sql.OpenDB(connector{d})
	db.SetMaxOpenConns(1)
	return db
}

var ErrInjected = errors.New("simdb: injected driver failure")

// op records a driver call and reports whether the fault strikes here.
func (d *DB) op(kind, text string) error {
	i := len(d.Ops)
	d.Ops = append(d.Ops, Op{Kind: kind, Text: text})
	if d.Fault != nil && d.Fault.At == i {
		d.Fired = true
		return d.Fault.Err
	}
	return nil
}

type connector struct{ d *DB }

func (c connector) Connect(context.Context) (driver.Conn, error) {
	base := &conn{d: c.d}
	if c.d.Cfg.ExecMode == 2 {
		return base, nil
	}
	return &execConn{base}, nil
}
func (c connector) Driver() driver.Driver { return drv{c.d} }

type drv struct{ d *DB }

func (x drv) Open(string) (driver.Conn, error) { return connector{x.d}.Connect(context.Background()) }

type conn struct{ d *DB }

func (c *conn) Prepare(q string) (driver.Stmt, error) {
	if err := c.d.op("prepare", q); err != nil {
		return nil, err
	}
	return &stmt{d: c.d, q: q}, nil
}
func (c *conn) Close() error { return nil }
func (c *conn) Begin() (driver.Tx, error) {
	if err := c.d.op("begin", ""); err != nil {
		return nil, err
	}
	return &tx{c.d}, nil
}

// execConn adds the ExecerContext fast path.
type execConn struct{ *conn }

func (c *execConn) ExecContext(ctx context.Context, q string, args []driver.NamedValue) (driver.Result, error) {
	if c.d.Cfg.ExecMode == 1 {
		return nil, driver.ErrSkip
	}
	if err := c.d.op("exec", q); err != nil {
		return nil, err
	}
	vals := make([]driver.Value, len(args))
	for i, a := range args {
		vals[i] = a.Value
	}
	return c.d.exec(q, vals, "exec-fast")
}

type tx struct{ d *DB }

func (t *tx) Commit() error {
	if err := t.d.op("commit", ""); err != nil {
		return err
	}
	t.d.committed = true
	return nil
}
func (t *tx) Rollback() error {
	t.d.rolledBack = true
	return nil
}

type stmt struct {
	d      *DB
	q      string
	closed bool
}

// Close: like with real drivers, a result set does not outlive its statement.
func (s *stmt) Close() error { s.closed = true; return nil }
func (s *stmt) NumInput() int {
	if s.d.Cfg.NumInputUnknown {
		return -1
	}
	if ins, err := ParseInsert(s.q, s.d.Cfg.Escape); err == nil {
		return len(ins.Place)
	}
	if _, ok := parseSelect(s.q); ok {
		return strings.Count(s.q, "?")
	}
	return -1
}
func (s *stmt) Exec(args []driver.Value) (driver.Result, error) {
	if err := s.d.op("stmt-exec", s.q); err != nil {
		return nil, err
	}
	return s.d.exec(s.q, args, "stmt-exec")
}
func (s *stmt) Query(args []driver.Value) (driver.Rows, error) {
	if err := s.d.op("query", s.q); err != nil {
		return nil, err
	}
	name, ok := parseSelect(s.q)
	if !ok {
		s.d.ParseErrors = append(s.d.ParseErrors, s.q)
		return nil, fmt.Errorf("simdb: cannot parse query %q", s.q)
	}
	t, ok := s.d.Tables[name]
	if !ok {
		return nil, fmt.Errorf("simdb: no such table %q", name)
	}
	s.d.QueryArgs = append([]driver.Value{}, args...)
	return &rows{d: s.d, t: t, s: s}, nil
}

type rows struct {
	d *DB
	t *Table
	i int
	s *stmt
}

func (r *rows) Columns() []string { return append([]string{}, r.t.Cols...) }
func (r *rows) Close() error      { return nil }
func (r *rows) Next(dest []driver.Value) error {
	if err := r.d.op("next", ""); err != nil {
		return err
	}
	if r.s != nil && r.s.closed {
		return errors.New("simdb: the statement of this result set is closed")
	}
	if r.i >= len(r.t.Rows) {
		return io.EOF
	}
	row := r.t.Rows[r.i]
	r.i++
	r.d.textBuf = r.d.textBuf[:0]
	for i, v := range row {
		switch x := v.(type) {
		case string:
			if r.d.Cfg.TextAsBytes {
				// all text cells of a row share one reused buffer
				start := len(r.d.textBuf)
				r.d.textBuf = append(r.d.textBuf, x...)
				dest[i] = r.d.textBuf[start:len(r.d.textBuf):len(r.d.textBuf)]
			} else {
				dest[i] = x
			}
		default:
			dest[i] = v
		}
	}
	return nil
}

type result struct{}

func (result) LastInsertId() (int64, error) { return 0, nil }
func (result) RowsAffected() (int64, error) { return 1, nil }

// exec parses and applies an INSERT.
func (d *DB) exec(q string, args []driver.Value, via string) (driver.Result, error) {
	raw := make([]driver.Value, len(args))
	cp := make([]driver.Value, len(args))
	for i, a := range args {
		if b, ok := a.([]byte); ok {
			a = string(b)
		}
		raw[i] = a
		if bv, ok := a.(bool); ok && d.Cfg.BoolAsInt {
			if bv {
				a = int64(1)
				if d.Cfg.TruthyInts {
					d.truthy++
					a = []int64{1, -1, 2, 255, -1 << 63, 1 << 40}[d.truthy%6]
				}
			} else {
				a = int64(0)
			}
		}
		if fv, ok := a.(float64); ok && d.Cfg.FloatAsText {
			a = strconv.FormatFloat(fv, 'g', -1, 64)
		}
		cp[i] = a
	}
	d.Stmts = append(d.Stmts, Stmt{Text: q, Args: raw, Via: via})
	ins, err := ParseInsert(q, d.Cfg.Escape)
	if err != nil {
		d.ParseErrors = append(d.ParseErrors, q+" :: "+err.Error())
		return nil, fmt.Errorf("simdb: syntax error: %v", err)
	}
	if len(ins.Cols) != len(args) {
		return nil, fmt.Errorf("simdb: %d columns, %d arguments", len(ins.Cols), len(args))
	}
	t := d.Tables[ins.Table]
	if t == nil {
		t = &Table{Cols: append([]string{}, ins.Cols...)}
		d.Tables[ins.Table] = t
	} else if strings.Join(t.Cols, "\x00") != strings.Join(ins.Cols, "\x00") {
		return nil, fmt.Errorf("simdb: column list differs from the table's")
	}
	row := make([]driver.Value, len(cp))
	for i := range cp {
		// placeholders are positional: ins.Place[i] names the argument
		row[i] = cp[ins.Place[i]]
	}
	t.Rows = append(t.Rows, row)
	return result{}, nil
}

// Insert is a parsed INSERT statement.
type Insert struct {
	Table string
	Cols  []string
	// Place[i] is the argument index bound to column i.
	Place        []int
	Incrementing bool
	Semicolon    bool
}

// ParseInsert accepts exactly
//
//	INSERT INTO <id> ( <id> {, <id>} ) VALUES ( <ph> {, <ph>} ) [;]
//
// with <id> wrapped in the escape rune (or bare when the rune is 0),
// <ph> either ? (all of them) or $n, keywords case-insensitive, white space
// free between tokens.
func ParseInsert(q string, esc rune) (*Insert, error) {
	p := &parser{s: q, esc: esc}
	if !p.keyword("INSERT") || !p.keyword("INTO") {
		return nil, fmt.Errorf("expected INSERT INTO at %d", p.i)
	}
	ins := &Insert{}
	var err error
	if ins.Table, err = p.ident(); err != nil {
		return nil, err
	}
	if !p.punct('(') {
		return nil, fmt.Errorf("expected ( at %d", p.i)
	}
	for {
		c, err := p.ident()
		if err != nil {
			return nil, err
		}
		ins.Cols = append(ins.Cols, c)
		if p.punct(',') {
			continue
		}
		if p.punct(')') {
			break
		}
		return nil, fmt.Errorf("expected , or ) at %d", p.i)
	}
	if !p.keyword("VALUES") || !p.punct('(') {
		return nil, fmt.Errorf("expected VALUES ( at %d", p.i)
	}
	q1, dollar := 0, 0
	for {
		p.ws()
		if p.i < len(p.s) && p.s[p.i] == '?' {
			p.i++
			ins.Place = append(ins.Place, len(ins.Place))
			q1++
		} else if p.i < len(p.s) && p.s[p.i] == '$' {
			p.i++
			j := p.i
			for j < len(p.s) && p.s[j] >= '0' && p.s[j] <= '9' {
				j++
			}
			n, err := strconv.Atoi(p.s[p.i:j])
			if err != nil || n < 1 {
				return nil, fmt.Errorf("bad placeholder at %d", p.i)
			}
			p.i = j
			ins.Place = append(ins.Place, n-1)
			dollar++
		} else {
			return nil, fmt.Errorf("expected placeholder at %d", p.i)
		}
		if p.punct(',') {
			continue
		}
		if p.punct(')') {
			break
		}
		return nil, fmt.Errorf("expected , or ) at %d", p.i)
	}
	if q1 > 0 && dollar > 0 {
		return nil, fmt.Errorf("mixed placeholder styles")
	}
	ins.Incrementing = dollar > 0
	if p.punct(';') {
		ins.Semicolon = true
	}
	p.ws()
	if p.i != len(p.s) {
		return nil, fmt.Errorf("trailing text at %d", p.i)
	}
	if len(ins.Place) != len(ins.Cols) {
		return nil, fmt.Errorf("%d columns but %d placeholders", len(ins.Cols), len(ins.Place))
	}
	seen := map[int]bool{}
	for _, a := range ins.Place {
		if a >= len(ins.Cols) || seen[a] {
			return nil, fmt.Errorf("placeholder numbering is not a permutation of 1..n")
		}
		seen[a] = true
	}
	return ins, nil
}

type parser struct {
	s   string
	i   int
	esc rune
}

func (p *parser) ws() {
	for p.i < len(p.s) && (p.s[p.i] == ' ' || p.s[p.i] == '\t' || p.s[p.i] == '\n') {
		p.i++
	}
}

func (p *parser) keyword(k string) bool {
	p.ws()
	if len(p.s)-p.i >= len(k) && strings.EqualFold(p.s[p.i:p.i+len(k)], k) {
		p.i += len(k)
		return true
	}
	return false
}

func (p *parser) punct(c byte) bool {
	p.ws()
	if p.i < len(p.s) && p.s[p.i] == c {
		p.i++
		return true
	}
	return false
}

func (p *parser) ident() (string, error) {
	p.ws()
	if p.esc != 0 {
		e := string(p.esc)
		if !strings.HasPrefix(p.s[p.i:], e) {
			return "", fmt.Errorf("identifier at %d is not wrapped in %q", p.i, e)
		}
		p.i += len(e)
		j := strings.Index(p.s[p.i:], e)
		if j < 0 {
			return "", fmt.Errorf("unterminated identifier at %d", p.i)
		}
		id := p.s[p.i : p.i+j]
		p.i += j + len(e)
		return id, nil
	}
	j := p.i
	for j < len(p.s) && !strings.ContainsRune(" \t\n(),;", rune(p.s[j])) {
		j++
	}
	if j == p.i {
		return "", fmt.Errorf("empty identifier at %d", p.i)
	}
	id := p.s[p.i:j]
	p.i = j
	return id, nil
}

func parseSelect(q string) (string, bool) {
	f := strings.Fields(strings.TrimSuffix(strings.TrimSpace(q), ";"))
	// an optional WHERE clause with ? placeholders is accepted and ignored
	// (every row is returned): it only carries query arguments
	if (len(f) == 4 || len(f) > 5 && strings.EqualFold(f[4], "WHERE")) && strings.EqualFold(f[0], "SELECT") && f[1] == "*" && strings.EqualFold(f[2], "FROM") {
		return f[3], true
	}
	return "", false
}
