package simio

import (
	"errors"
	"io"
	"sync/atomic"

	"verifsim/sim/core"
)

// SimPipe is a bounded in-memory byte pipe between two simulated tasks. Every
// Read and Write is a scheduling point; a full (empty) pipe blocks the writer
// (reader) until the scheduler has run the other side. What the reader sees
// (the chunking) is therefore decided by the interleaving the scheduler
// picks.
type SimPipe struct {
	S        *core.Sched
	Cap      int
	buf      []byte
	closed   bool
	closeErr error
	rdClosed bool
	Reads    int
	Writes   int
	Chunks   []int // sizes delivered to the reader
	Total    int
	foreign  int32
}

var ErrClosedPipe = errors.New("simio: write on closed pipe")

// ErrForeign is what a goroutine gets that is not one of the two simulated
// tasks (a goroutine the code under test started for its I/O): it cannot take
// part in a schedule the simulator decides. The engine notices (ForeignUse)
// and repeats the round trip without a scheduler.
var ErrForeign = errors.New("simio: pipe used from a goroutine the simulator does not own")

// ForeignUse reports whether ErrForeign was ever returned.
func (p *SimPipe) ForeignUse() bool { return atomic.LoadInt32(&p.foreign) != 0 }

func (p *SimPipe) Write(b []byte) (int, error) {
	if p.S.Foreign() {
		atomic.StoreInt32(&p.foreign, 1)
		return 0, ErrForeign
	}
	p.Writes++
	n := 0
	for len(b) > 0 {
		if p.rdClosed {
			return n, ErrClosedPipe
		}
		p.S.Block(func() bool { return len(p.buf) < p.Cap || p.rdClosed })
		if p.rdClosed {
			return n, ErrClosedPipe
		}
		room := p.Cap - len(p.buf)
		if room > len(b) {
			room = len(b)
		}
		p.buf = append(p.buf, b[:room]...)
		b = b[room:]
		n += room
		p.S.Yield(-1)
	}
	return n, nil
}

// Close ends the stream (the reader sees io.EOF after the buffered bytes).
func (p *SimPipe) Close() error { return p.CloseWithError(nil) }

func (p *SimPipe) CloseWithError(err error) error {
	p.closed = true
	p.closeErr = err
	return nil
}

// CloseRead makes further writes fail (the reader went away).
func (p *SimPipe) CloseRead() { p.rdClosed = true }

func (p *SimPipe) Read(b []byte) (int, error) {
	if p.S.Foreign() {
		atomic.StoreInt32(&p.foreign, 1)
		return 0, ErrForeign
	}
	p.Reads++
	if len(b) == 0 {
		return 0, nil
	}
	p.S.Block(func() bool { return len(p.buf) > 0 || p.closed })
	if len(p.buf) == 0 {
		if p.closeErr != nil {
			return 0, p.closeErr
		}
		return 0, io.EOF
	}
	n := copy(b, p.buf)
	p.buf = p.buf[n:]
	p.Chunks = append(p.Chunks, n)
	p.Total += n
	p.S.Yield(-1)
	return n, nil
}

// ChunkReader hands out b in reads of at most N bytes (the scheduler-free
// stand-in for the pipe).
type ChunkReader struct {
	B      []byte
	N      int
	Chunks []int
}

func (r *ChunkReader) Read(p []byte) (int, error) {
	if len(r.B) == 0 {
		return 0, io.EOF
	}
	n := len(p)
	if r.N > 0 && n > r.N {
		n = r.N
	}
	n = copy(p[:n], r.B)
	r.B = r.B[n:]
	r.Chunks = append(r.Chunks, n)
	return n, nil
}
