package simio

import (
	"errors"
	"io"

	"verifsim/sim/core"
)

// SimPipe is a bounded in-memory byte pipe between two simulated tasks. Every
// Read and Write is a scheduling point; a full (empty) pipe blocks the writer
// (reader) until the scheduler has run the other side. What the reader sees
// (the chunking) is therefore decided by the interleaving the scheduler
// picks.
type SimPipe struct {
	S        *core.Sched
	Cap      int
	buf      []byte
	closed   bool
	closeErr error
	rdClosed bool
	Reads    int
	Writes   int
	Chunks   []int // sizes delivered to the reader
	Total    int
}

var ErrClosedPipe = errors.New("simio: write on closed pipe")

func (p *SimPipe) Write(b []byte) (int, error) {
	p.Writes++
	n := 0
	for len(b) > 0 {
		if p.rdClosed {
			return n, ErrClosedPipe
		}
		p.S.Block(func() bool { return len(p.buf) < p.Cap || p.rdClosed })
		if p.rdClosed {
			return n, ErrClosedPipe
		}
		room := p.Cap - len(p.buf)
		if room > len(b) {
			room = len(b)
		}
		p.buf = append(p.buf, b[:room]...)
		b = b[room:]
		n += room
		p.S.Yield(-1)
	}
	return n, nil
}

// Close ends the stream (the reader sees io.EOF after the buffered bytes).
func (p *SimPipe) Close() error { return p.CloseWithError(nil) }

func (p *SimPipe) CloseWithError(err error) error {
	p.closed = true
	p.closeErr = err
	return nil
}

// CloseRead makes further writes fail (the reader went away).
func (p *SimPipe) CloseRead() { p.rdClosed = true }

func (p *SimPipe) Read(b []byte) (int, error) {
	p.Reads++
	if len(b) == 0 {
		return 0, nil
	}
	p.S.Block(func() bool { return len(p.buf) > 0 || p.closed })
	if len(p.buf) == 0 {
		if p.closeErr != nil {
			return 0, p.closeErr
		}
		return 0, io.EOF
	}
	n := copy(b, p.buf)
	p.buf = p.buf[n:]
	p.Chunks = append(p.Chunks, n)
	p.Total += n
	p.S.Yield(-1)
	return n, nil
}
