// Package simio holds the simulated byte endpoints: the io.Reader and
// io.Writer arguments are the seam between qframe and the outside world, so
// the simulator implements them and decides fragmentation, EOF style and
// faults. None of these types draws from a PRNG on its own: the plan is fixed
// before the run (from rapid draws), so a run is a pure function of the plan.
package simio

import (
	"errors"
	"io"
)

// ReadPlan is the schedule of a SimReader.
type ReadPlan struct {
	// Cuts are byte offsets at which a Read must end (sorted ascending).
	Cuts []int `json:"cuts,omitempty"`
	// Sizes is cycled through to bound successive reads (0 or empty = no bound).
	Sizes []int `json:"sizes,omitempty"`
	// EOFWithData: the Read delivering the last byte also returns io.EOF.
	EOFWithData bool `json:"eof_with_data,omitempty"`
	// Fault, if non-nil, makes the reader fail.
	Fault *ReadFault `json:"fault,omitempty"`
}

// ReadFault describes a failing reader: from byte offset At on, the reader
// returns Err. WithData: the read that reaches At still delivers the bytes
// before At together with the error (if there are any in that call),
// otherwise they are delivered first and the error comes alone in the next
// call. At == len(doc) means "instead of EOF".
type ReadFault struct {
	At       int    `json:"at"`
	WithData bool   `json:"with_data"`
	Kind     string `json:"kind"`
	Err      error  `json:"-"`
	// Once: the reader fails a single time at At and works again afterwards
	// (a transient fault); otherwise it keeps failing.
	Once bool `json:"once,omitempty"`
}

// SimReader delivers Doc according to Plan.
type SimReader struct {
	Doc  []byte
	Plan ReadPlan

	pos      int
	cutIx    int
	sizeIx   int
	Reads    int  // Read calls so far
	Short    int  // reads that delivered fewer bytes than both len(p) and the remaining document
	Fired    bool // the fault error was returned to the caller at least once
	EOFs     int  // number of times EOF was returned
	ZeroBuf  int  // calls with len(p)==0
	MaxReads int  // liveness budget; 0 = none
	Stuck    bool // budget exceeded: reader then returns ErrNoProgressBudget forever
	Boundary []int
}

// ErrBudget is returned when the liveness budget is exhausted, so that a
// caller spinning on the reader terminates; the engine reports it.
var ErrBudget = errors.New("simio: read budget exhausted (no progress)")

func (r *SimReader) Read(p []byte) (int, error) {
	r.Reads++
	if r.MaxReads > 0 && r.Reads > r.MaxReads {
		r.Stuck = true
		return 0, ErrBudget
	}
	end := len(r.Doc)
	f := r.Plan.Fault
	if f != nil && f.Once && r.Fired {
		f = nil // transient fault already delivered
	}
	if f != nil && f.At < end {
		end = f.At
	}
	if len(p) == 0 {
		r.ZeroBuf++
		return 0, nil
	}
	if r.pos >= end {
		if f != nil {
			r.Fired = true
			return 0, f.Err
		}
		r.EOFs++
		return 0, io.EOF
	}
	n := end - r.pos
	bounded := false
	if len(r.Plan.Sizes) > 0 {
		s := r.Plan.Sizes[r.sizeIx%len(r.Plan.Sizes)]
		r.sizeIx++
		if s > 0 && s < n {
			n = s
			bounded = true
		}
	}
	for r.cutIx < len(r.Plan.Cuts) && r.Plan.Cuts[r.cutIx] <= r.pos {
		r.cutIx++
	}
	if r.cutIx < len(r.Plan.Cuts) {
		if c := r.Plan.Cuts[r.cutIx] - r.pos; c < n {
			n = c
			bounded = true
		}
	}
	if n > len(p) {
		n = len(p)
		bounded = false
	}
	if bounded {
		r.Short++
	}
	copy(p, r.Doc[r.pos:r.pos+n])
	r.pos += n
	r.Boundary = append(r.Boundary, r.pos)
	if r.pos >= end {
		if f != nil && f.WithData {
			r.Fired = true
			return n, f.Err
		}
		if f == nil && r.Plan.EOFWithData {
			r.EOFs++
			return n, io.EOF
		}
	}
	return n, nil
}

// Pos is the number of bytes delivered so far.
func (r *SimReader) Pos() int { return r.pos }

// WriteFault describes a failing writer. From byte offset At on nothing more
// is accepted. Short: the Write call that crosses At accepts the bytes before
// At and returns (k, Err); otherwise that call accepts nothing and returns
// (0, Err). Every later call returns (0, Err) (a full disk stays full).
type WriteFault struct {
	At    int    `json:"at"`
	Short bool   `json:"short"`
	Kind  string `json:"kind"`
	Err   error  `json:"-"`
	// Once: a single Write call fails (transient), later calls are accepted.
	Once bool `json:"once,omitempty"`
}

// SimWriter accepts bytes until its fault strikes.
type SimWriter struct {
	Fault  *WriteFault
	Buf    []byte
	Writes int
	Sizes  []int // size of every Write call
	Fired  bool
}

func (w *SimWriter) Write(p []byte) (int, error) {
	w.Writes++
	w.Sizes = append(w.Sizes, len(p))
	f := w.Fault
	if f == nil || (f.Once && w.Fired) {
		w.Buf = append(w.Buf, p...)
		return len(p), nil
	}
	room := f.At - len(w.Buf)
	if room < 0 {
		room = 0
	}
	if len(p) <= room {
		// fits (exactly, possibly): the fault strikes at the next byte.
		w.Buf = append(w.Buf, p...)
		return len(p), nil
	}
	w.Fired = true
	if f.Short && room > 0 {
		w.Buf = append(w.Buf, p[:room]...)
		return room, f.Err
	}
	return 0, f.Err
}

// Writers differ in what they implement besides Write; code under test may
// take a fast path when it finds io.ByteWriter or io.StringWriter. The fault
// semantics are those of the embedded SimWriter.

// SimByteWriter is a SimWriter that also implements io.ByteWriter.
type SimByteWriter struct{ *SimWriter }

func (w SimByteWriter) WriteByte(c byte) error {
	_, err := w.SimWriter.Write([]byte{c})
	return err
}

// SimStringWriter is a SimWriter that also implements io.StringWriter.
type SimStringWriter struct{ *SimWriter }

func (w SimStringWriter) WriteString(s string) (int, error) { return w.SimWriter.Write([]byte(s)) }

// SimRichWriter implements both.
type SimRichWriter struct{ *SimWriter }

func (w SimRichWriter) WriteByte(c byte) error {
	_, err := w.SimWriter.Write([]byte{c})
	return err
}
func (w SimRichWriter) WriteString(s string) (int, error) { return w.SimWriter.Write([]byte(s)) }

// As wraps w in one of the capability variants (0 = plain).
func (w *SimWriter) As(kind int) io.Writer {
	switch kind % 4 {
	case 1:
		return SimByteWriter{w}
	case 2:
		return SimStringWriter{w}
	case 3:
		return SimRichWriter{w}
	}
	return w
}

// Readers, too, differ in what they implement besides Read (bufio.Reader,
// *os.File and bytes.Buffer are io.WriterTo; bufio.Reader is an
// io.ByteReader); code under test may take another path when it finds one of
// them. Fragmentation, EOF style and faults are those of the embedded
// SimReader, which every variant goes through.

// SimWriterToReader also implements io.WriterTo.
type SimWriterToReader struct{ *SimReader }

func (r SimWriterToReader) WriteTo(w io.Writer) (int64, error) {
	var total int64
	buf := make([]byte, 37)
	for {
		n, err := r.SimReader.Read(buf)
		if n > 0 {
			m, werr := w.Write(buf[:n])
			total += int64(m)
			if werr != nil {
				return total, werr
			}
		}
		if err == io.EOF {
			return total, nil
		}
		if err != nil {
			return total, err
		}
	}
}

// SimByteReader also implements io.ByteReader.
type SimByteReader struct{ *SimReader }

func (r SimByteReader) ReadByte() (byte, error) {
	var b [1]byte
	for {
		n, err := r.SimReader.Read(b[:])
		if n == 1 {
			return b[0], nil // an error delivered with the byte is reported by the next call
		}
		if err != nil {
			return 0, err
		}
	}
}

// As wraps r in one of the capability variants (0 = plain io.Reader).
func (r *SimReader) As(kind int) io.Reader {
	switch kind % 4 {
	case 1:
		return SimWriterToReader{r}
	case 2:
		return SimByteReader{r}
	case 3:
		return &SimSeekReader{SimReader: r}
	}
	return r
}

// seekPreamble is what precedes the document in the stream of a SimSeekReader.
var seekPreamble = []byte("# a preamble the caller has already consumed\nx,y,z\n1,2\n")

// SimSeekReader also implements io.Seeker: the stream is a preamble followed
// by the document, and the reader is handed over positioned at the start of
// the document - like a file whose first lines the caller has read already.
// Whoever seeks has to come back to where the reader was handed over.
type SimSeekReader struct {
	*SimReader
	pre   int // bytes of the preamble still to deliver (only after a seek into it)
	Seeks int
}

func (r *SimSeekReader) Read(p []byte) (int, error) {
	if r.pre > 0 && len(p) > 0 {
		n := copy(p, seekPreamble[len(seekPreamble)-r.pre:])
		r.pre -= n
		return n, nil
	}
	return r.SimReader.Read(p)
}

func (r *SimSeekReader) Seek(offset int64, whence int) (int64, error) {
	r.Seeks++
	cur := int64(len(seekPreamble) - r.pre + r.SimReader.pos)
	if r.pre > 0 {
		cur = int64(len(seekPreamble) - r.pre)
	}
	var abs int64
	switch whence {
	case io.SeekStart:
		abs = offset
	case io.SeekCurrent:
		abs = cur + offset
	case io.SeekEnd:
		abs = int64(len(seekPreamble)+len(r.SimReader.Doc)) + offset
	default:
		return 0, errors.New("simio: invalid whence")
	}
	if abs < 0 {
		return 0, errors.New("simio: negative position")
	}
	if abs < int64(len(seekPreamble)) {
		r.pre = len(seekPreamble) - int(abs)
		r.SimReader.pos = 0
	} else {
		r.pre = 0
		r.SimReader.pos = int(abs) - len(seekPreamble)
		if r.SimReader.pos > len(r.SimReader.Doc) {
			r.SimReader.pos = len(r.SimReader.Doc)
		}
	}
	return abs, nil
}
