package gen

import (
	"sort"

	"pgregory.net/rapid"

	"verifsim/sim/core"
)

// PolicyDesc is the drawn schedule description (kept for the trace).
type PolicyDesc struct {
	Kind   string  `json:"kind"`
	Prio   []int   `json:"prio,omitempty"`
	Points []int64 `json:"points,omitempty"`
	PInv   int     `json:"pinv,omitempty"`
	Key    uint64  `json:"key,omitempty"`
}

// DrawPolicy draws a schedule family and its parameters. estSteps is the
// expected number of scheduling points of the whole run; maxDepth bounds the
// number of PCT change points. Encodings shrink towards "no switch".
func DrawPolicy(t *rapid.T, ntasks int, estSteps int64, maxDepth int) (core.Policy, PolicyDesc) {
	if estSteps < 2 {
		estSteps = 2
	}
	kind := rapid.IntRange(0, 3).Draw(t, "policy")
	switch kind {
	case 0, 1:
		d := rapid.IntRange(0, maxDepth).Draw(t, "pctdepth")
		desc := PolicyDesc{Kind: "pct"}
		perm := rapid.Permutation(seq(ntasks)).Draw(t, "prio")
		desc.Prio = make([]int, ntasks)
		for rank, id := range perm {
			desc.Prio[id] = ntasks - rank
		}
		for i := 0; i < d; i++ {
			desc.Points = append(desc.Points, rapid.Int64Range(1, estSteps).Draw(t, "point"))
		}
		sort.Slice(desc.Points, func(i, j int) bool { return desc.Points[i] < desc.Points[j] })
		return &core.PCT{Prio: append([]int{}, desc.Prio...), Points: append([]int64{}, desc.Points...)}, desc
	default:
		pinv := []int{4, 32, 256}[rapid.IntRange(0, 2).Draw(t, "pinv")]
		key := rapid.Uint64().Draw(t, "walkkey")
		return &core.RandomWalk{PInv: pinv, R: core.NewSplitMix(key)}, PolicyDesc{Kind: "walk", PInv: pinv, Key: key}
	}
}

func seq(n int) []int {
	s := make([]int, n)
	for i := range s {
		s[i] = i
	}
	return s
}
