package gen

import (
	"sort"

	"pgregory.net/rapid"

	"verifsim/sim/core"
)

// PolicyDesc is the drawn schedule description (kept for the trace).
type PolicyDesc struct {
	Kind   string  `json:"kind"`
	Prio   []int   `json:"prio,omitempty"`
	Points []int64 `json:"points,omitempty"`
	PInv   int     `json:"pinv,omitempty"`
	Key    uint64  `json:"key,omitempty"`
}

// DrawPolicy draws a schedule family and its parameters. estSteps is the
// expected number of scheduling points of the whole run; maxDepth bounds the
// number of PCT change points. Encodings shrink towards "no switch".
func DrawPolicy(t *rapid.T, ntasks int, estSteps int64, maxDepth int) (core.Policy, PolicyDesc) {
	if estSteps < 2 {
		estSteps = 2
	}
	kind := rapid.IntRange(0, 3).Draw(t, "policy")
	switch kind {
	case 0, 1:
		d := rapid.IntRange(0, maxDepth).Draw(t, "pctdepth")
		desc := PolicyDesc{Kind: "pct"}
		perm := rapid.Permutation(seq(ntasks)).Draw(t, "prio")
		desc.Prio = make([]int, ntasks)
		for rank, id := range perm {
			desc.Prio[id] = ntasks - rank
		}
		for i := 0; i < d; i++ {
			desc.Points = append(desc.Points, rapid.Int64Range(1, estSteps).Draw(t, "point"))
		}
		sort.Slice(desc.Points, func(i, j int) bool { return desc.Points[i] < desc.Points[j] })
		return &core.PCT{Prio: append([]int{}, desc.Prio...), Points: append([]int64{}, desc.Points...)}, desc
	default:
		pinv := []int{4, 32, 256}[rapid.IntRange(0, 2).Draw(t, "pinv")]
		key := rapid.Uint64().Draw(t, "walkkey")
		return &core.RandomWalk{PInv: pinv, R: core.NewSplitMix(key)}, PolicyDesc{Kind: "walk", PInv: pinv, Key: key}
	}
}

func seq(n int) []int {
	s := make([]int, n)
	for i := range s {
		s[i] = i
	}
	return s
}

// Rare reports true with probability about 1/n. rapid's integer generators
// are deliberately biased towards small values and range bounds, so
// "IntRange(0, n) == 0" is far more frequent than 1/n; here the draw is
// hashed first. The shrink target (0) is "not rare".
func Rare(t *rapid.T, label string, n uint64) bool {
	x := rapid.Uint64().Draw(t, label)
	if x == 0 {
		return false
	}
	x += 0x9e3779b97f4a7c15
	x ^= x >> 33
	x *= 0xff51afd7ed558ccd
	x ^= x >> 33
	x *= 0xc4ceb9fe1a85ec53
	x ^= x >> 33
	return x%n == 0
}
