package gen

import (
	"bytes"
	"fmt"
	"math"
	"strconv"
	"strings"

	"github.com/tobgu/qframe"
	"github.com/tobgu/qframe/config/csv"
	"github.com/tobgu/qframe/config/groupby"
	"github.com/tobgu/qframe/config/newqf"
	"github.com/tobgu/qframe/types"
	"pgregory.net/rapid"

	"verifsim/sim/core"
)

// ColSpec is one generated column (the caller-owned input of qframe.New).
type ColSpec struct {
	Name     string    `json:"name"`
	Type     string    `json:"type"` // int float bool string enum
	Ints     []int     `json:"ints,omitempty"`
	Floats   []float64 `json:"-"`
	FloatTxt []string  `json:"floats,omitempty"`
	Bools    []bool    `json:"bools,omitempty"`
	Strs     []*string `json:"-"`
	StrTxt   []string  `json:"strs,omitempty"`
	EnumVals []string  `json:"enum_vals,omitempty"` // declared values (nil: derived from the data)
}

// FrameSpec is a generated base frame.
type FrameSpec struct {
	Cols  []ColSpec `json:"cols"`
	NRows int       `json:"nrows"`
}

// FrameBounds parameterises DrawFrame.
type FrameBounds struct {
	MaxCols, MaxRows int
	MinRows, MinCols int
	NoCR             bool // strings never contain '\r' (CSV round trip)
	NoInf            bool // floats finite or NaN only (JSON)
	NoNaN            bool
	FancyNames       bool // names over arbitrary bytes
	NoEnum           bool
	Types            []string // allowed types; nil = all
	WithID           bool     // add a hidden unique int column "__id"
	SmallDomain      bool     // few distinct values (grouping, filtering)
	NoNullStr        bool
	ManyEnumValues   bool // now and then an enum column with 32..70 distinct values
	Clustered        bool // every column consists of runs of equal cells (8..60 rows long) cycling through a few values: keys recur after other keys, unsorted
	SumFloats        bool // float cells are finite values whose sum depends on the order of addition (0.1, 1e16, -1e16, ...)
	LongNames        bool // column names of 35..250 characters (wider than any fixed-size scratch space)
}

var intPool = []int{0, 1, -1, 2, 3, 7, 42, -42, 1 << 31, -(1 << 31), math.MaxInt64, math.MinInt64, 255, 256,
	// neighbours beyond 2^53 (distinct ints, one float64) and next to the limits
	1 << 53, 1<<53 + 1, 1<<53 + 2, -(1 << 53) - 1, math.MaxInt64 - 1, math.MinInt64 + 1, 1 << 62, 1<<62 + 1}
var floatPool = []float64{0, math.Copysign(0, -1), 1, -1, 1.5, 0.1, 1e21, 1e-7, 123456789.125, math.MaxFloat64, math.SmallestNonzeroFloat64, 9007199254740993, 1e19, 9.3e18, -2.5e-300}
var strPool = []string{"", "a", "b", "abc", "A", " ", " a ", "a,b", "\"", "\"\"", "a\"b", "\n", "a\nb", "é", "漢字", "\xff", "\xc3", "0", "1", "true", "null", "NaN", "'", "\\", "\t", "\x00", " ", "x\x01y", "ab", "a\x00", "$", "%", "é́", "\ufffd", "a\ufffdb", "\u2028", "\u2029", "\x7f", "\xed\xa0\x80", "\xf0\x9f\x98\x80", "\xc0\x80", "\ufeff", "\ufeffa", "\x0b", "\x08", "\x0c", "\x1f", "a\x0bb", "\x1b[0m", "\x85", "\u0085", "sep=;", "sep=|", "sep=,", "\\N", "NA", "NULL", "\x1a", "a\x1a", "1,5", "#x"}

var pow10u = func() []uint64 {
	p := []uint64{1}
	for i := 1; i <= 19; i++ {
		p = append(p, p[i-1]*10)
	}
	return p
}()

// StressFloats derives n finite floats from one key: a third from random
// bits (every binade equally likely), a third with a random mantissa in a
// binade of the "human" range 1e-30..1e30, a third decimals of 1..17 digits.
// One drawn value stands for many floats, so shortest-decimal formatting and
// parsing are exercised on hundreds of values per simulated run.
func StressFloats(key uint64, n int) []float64 {
	r := core.NewSplitMix(key)
	out := make([]float64, 0, n)
	for len(out) < n {
		var f float64
		switch r.Intn(3) {
		case 0:
			f = math.Float64frombits(r.Uint64())
		case 1:
			f = math.Ldexp(1+float64(r.Uint64()>>12)/(1<<52), r.Intn(200)-100)
			if r.Intn(2) == 0 {
				f = -f
			}
		default:
			nd := 1 + r.Intn(17)
			m := r.Uint64() % pow10u[nd]
			f, _ = strconv.ParseFloat(strconv.FormatUint(m, 10)+"e"+strconv.Itoa(r.Intn(nd+19)-nd-12), 64)
		}
		if !math.IsNaN(f) && !math.IsInf(f, 0) {
			out = append(out, f)
		}
	}
	return out
}

// canonical NaN and the NaN the x86 produces for 0.0/0.0 at run time
var nanA = math.NaN()
var nanB = math.Float64frombits(0xfff8000000000000)

var sumFloats = []float64{0.1, 0.2, 0.3, 0.7, 1, -1, 1e16, -1e16, 3, 1e-3, 123456.789, -0.1, 2.5e15, 1e-9, 9007199254740993, 0.30000000000000004}

func drawFloat(t *rapid.T, b FrameBounds) float64 {
	if b.SumFloats {
		return sumFloats[rapid.IntRange(0, len(sumFloats)-1).Draw(t, "fsum")]
	}
	k := rapid.IntRange(0, 9).Draw(t, "fkind")
	switch {
	case k == 0 && !b.NoNaN:
		if rapid.Bool().Draw(t, "nanb") {
			return nanB
		}
		return nanA
	case k == 1 && !b.NoInf:
		if rapid.Bool().Draw(t, "neg") {
			return math.Inf(-1)
		}
		return math.Inf(1)
	case k == 4 && !b.SmallDomain:
		// the floats next to a short decimal d x 10^e (rounding-interval
		// boundaries of shortest-decimal formatting)
		d := rapid.IntRange(1, 999).Draw(t, "mant")
		e := rapid.IntRange(-330, 300).Draw(t, "exp10")
		f, err := strconv.ParseFloat(strconv.Itoa(d)+"e"+strconv.Itoa(e), 64)
		if err != nil || math.IsInf(f, 0) {
			f = float64(d)
		}
		switch rapid.IntRange(0, 4).Draw(t, "ulps") {
		case 1:
			f = math.Nextafter(f, math.Inf(1))
		case 2:
			f = math.Nextafter(f, math.Inf(-1))
		case 3:
			f = math.Nextafter(math.Nextafter(f, math.Inf(1)), math.Inf(1))
		case 4:
			f = math.Nextafter(math.Nextafter(f, math.Inf(-1)), math.Inf(-1))
		}
		if rapid.Bool().Draw(t, "neg") {
			f = -f
		}
		return f
	case k == 3 && !b.SmallDomain:
		// exact powers of two across the whole exponent range (shortest-decimal
		// boundary cases), either sign
		f := math.Ldexp(1, rapid.IntRange(-1074, 1023).Draw(t, "pow2"))
		if rapid.Bool().Draw(t, "neg") {
			f = -f
		}
		return f
	case k == 5 && !b.SmallDomain:
		// human-scale decimals of 1..17 significant digits (5.0000000001,
		// 61234.56789, 0.000012345678901234567): digit-count dependent
		// formatting paths and rounding to a number of decimals
		nd := rapid.IntRange(1, 17).Draw(t, "ndigits")
		m := rapid.Uint64Range(0, pow10u[nd]-1).Draw(t, "digits")
		e := rapid.IntRange(-nd-12, 6).Draw(t, "dexp")
		f, err := strconv.ParseFloat(strconv.FormatUint(m, 10)+"e"+strconv.Itoa(e), 64)
		if err != nil {
			f = float64(m)
		}
		if rapid.Bool().Draw(t, "neg") {
			f = -f
		}
		return f
	case k == 2 && !b.SmallDomain:
		for {
			f := math.Float64frombits(rapid.Uint64().Draw(t, "fbits"))
			if !math.IsNaN(f) && !math.IsInf(f, 0) {
				return f
			}
		}
	case b.SmallDomain:
		return []float64{0, math.Copysign(0, -1), 1, 1.5, -1}[rapid.IntRange(0, 4).Draw(t, "fsmall")]
	default:
		return floatPool[rapid.IntRange(0, len(floatPool)-1).Draw(t, "fpool")]
	}
}

func drawStr(t *rapid.T, b FrameBounds) string {
	var s string
	if b.SmallDomain {
		s = []string{"", "a", "b", "ab", "\x00", "A"}[rapid.IntRange(0, 5).Draw(t, "ssmall")]
	} else {
		n := rapid.IntRange(1, 2).Draw(t, "snp")
		for i := 0; i < n; i++ {
			s += strPool[rapid.IntRange(0, len(strPool)-1).Draw(t, "spool")]
		}
		if rapid.IntRange(0, 30).Draw(t, "crs") == 0 {
			s += "\r"
		}
	}
	if b.NoCR {
		s = strings.ReplaceAll(s, "\r", "")
	}
	return s
}

// ValidName mirrors the documented restrictions on column names.
func ValidName(s string) bool { return validName(s) }

func drawName(t *rapid.T, b FrameBounds, i int, used map[string]bool) string {
	for try := 0; ; try++ {
		name := "c" + strconv.Itoa(i)
		if b.FancyNames && try < 3 && rapid.IntRange(0, 2).Draw(t, "fancy") == 0 {
			name = drawStr(t, FrameBounds{NoCR: b.NoCR})
			if rapid.Bool().Draw(t, "prefix") {
				name = "n" + name
			}
		}
		if b.LongNames && rapid.IntRange(0, 2).Draw(t, "longname") != 0 {
			// (with a few drawn characters: over the life of a process many different names)
			name += "_" + strconv.FormatUint(uint64(rapid.Uint16().Draw(t, "nametag")), 36) + strings.Repeat("long", []int{8, 20, 60}[rapid.IntRange(0, 2).Draw(t, "namelen")])
		}
		if validName(name) && !used[name] && !strings.HasPrefix(name, "__") {
			used[name] = true
			return name
		}
	}
}

// DrawFrame draws a base frame.
func DrawFrame(t *rapid.T, b FrameBounds) *FrameSpec {
	fs := &FrameSpec{}
	minCols := 1
	if b.MinCols > 1 {
		minCols = b.MinCols
	}
	ncols := rapid.IntRange(minCols, b.MaxCols).Draw(t, "ncols")
	fs.NRows = rapid.IntRange(b.MinRows, b.MaxRows).Draw(t, "nrows")
	typesAllowed := b.Types
	if typesAllowed == nil {
		typesAllowed = []string{"int", "float", "bool", "string", "enum"}
		if b.NoEnum {
			typesAllowed = typesAllowed[:4]
		}
	}
	used := map[string]bool{}
	clusterRun, clusterM := 1, 2
	if b.Clustered {
		clusterRun = []int{8, 9, 33, 40, 60}[rapid.IntRange(0, 4).Draw(t, "runlen")]
		clusterM = rapid.IntRange(2, 3).Draw(t, "framerunvals")
	}
	for i := 0; i < ncols; i++ {
		c := ColSpec{Name: drawName(t, b, i, used)}
		c.Type = typesAllowed[rapid.IntRange(0, len(typesAllowed)-1).Draw(t, "type")]
		switch c.Type {
		case "int":
			for r := 0; r < fs.NRows; r++ {
				if b.SmallDomain {
					c.Ints = append(c.Ints, rapid.IntRange(-1, 3).Draw(t, "ismall"))
				} else if ik := rapid.IntRange(0, 4).Draw(t, "ik"); ik == 0 {
					c.Ints = append(c.Ints, rapid.Int().Draw(t, "irand"))
				} else if ik == 4 {
					// decimal-shaped: d·10^k plus a short tail, either sign (whole digit groups of zeros)
					v := rapid.IntRange(1, 9).Draw(t, "idig") * int(pow10u[rapid.IntRange(0, 18).Draw(t, "ipow")])
					v += []int{0, 0, 1, -1, 123456789}[rapid.IntRange(0, 4).Draw(t, "itail")]
					if rapid.Bool().Draw(t, "ineg") {
						v = -v
					}
					c.Ints = append(c.Ints, v)
				} else {
					c.Ints = append(c.Ints, intPool[rapid.IntRange(0, len(intPool)-1).Draw(t, "ipool")])
				}
			}
			if c.Ints == nil {
				c.Ints = []int{}
			}
		case "float":
			for r := 0; r < fs.NRows; r++ {
				c.Floats = append(c.Floats, drawFloat(t, b))
			}
			if c.Floats == nil {
				c.Floats = []float64{}
			}
		case "bool":
			for r := 0; r < fs.NRows; r++ {
				c.Bools = append(c.Bools, rapid.Bool().Draw(t, "b"))
			}
			if c.Bools == nil {
				c.Bools = []bool{}
			}
		case "string", "enum":
			var vals []string
			if c.Type == "enum" {
				// a small value set, declared (strict) or derived
				nv := rapid.IntRange(1, 5).Draw(t, "nvals")
				if b.ManyEnumValues && Rare(t, "manyvals", 12) {
					nv = rapid.IntRange(32, 70).Draw(t, "nvalsmany")
				}
				seen := map[string]bool{}
				for len(vals) < nv {
					v := drawStr(t, b)
					if !seen[v] {
						seen[v] = true
						vals = append(vals, v)
					} else {
						v = v + strconv.Itoa(len(vals))
						if !seen[v] {
							seen[v] = true
							vals = append(vals, v)
						}
					}
				}
				if rapid.Bool().Draw(t, "declared") {
					c.EnumVals = vals
				}
			}
			for r := 0; r < fs.NRows; r++ {
				if !b.NoNullStr && rapid.IntRange(0, 5).Draw(t, "null") == 0 {
					c.Strs = append(c.Strs, nil)
					continue
				}
				var v string
				if c.Type == "enum" {
					v = vals[rapid.IntRange(0, len(vals)-1).Draw(t, "ev")]
				} else {
					v = drawStr(t, b)
				}
				c.Strs = append(c.Strs, &v)
			}
			if c.Strs == nil {
				c.Strs = []*string{}
			}
		}
		if b.Clustered && fs.NRows > 0 {
			// row i takes the cell of row (i/run) mod m: runs of one value, the
			// same few values coming back again and again
			// (one run length for the whole frame, so that any set of columns
			// taken together is constant over each run as well)
			m := clusterM
			if rapid.IntRange(0, 3).Draw(t, "ownrunvals") == 0 {
				m = rapid.IntRange(2, 4).Draw(t, "runvals")
			}
			// the cells of the last m rows are the values (read before any row is rewritten)
			base := fs.NRows - m
			if base < 0 {
				base = 0
			}
			ints, floats, bools, strs := append([]int{}, c.Ints...), append([]float64{}, c.Floats...), append([]bool{}, c.Bools...), append([]*string{}, c.Strs...)
			for r := 0; r < fs.NRows; r++ {
				src := base + (r/clusterRun)%m%(fs.NRows-base)
				switch c.Type {
				case "int":
					c.Ints[r] = ints[src]
				case "float":
					c.Floats[r] = floats[src]
				case "bool":
					c.Bools[r] = bools[src]
				default:
					c.Strs[r] = strs[src]
				}
			}
		}
		fs.Cols = append(fs.Cols, c)
	}
	if b.WithID {
		c := ColSpec{Name: "__id", Type: "int", Ints: make([]int, fs.NRows)}
		for r := range c.Ints {
			c.Ints[r] = r
		}
		fs.Cols = append(fs.Cols, c)
	}
	fs.fillText()
	return fs
}

func (fs *FrameSpec) fillText() {
	for i := range fs.Cols {
		c := &fs.Cols[i]
		c.FloatTxt = nil
		for _, f := range c.Floats {
			c.FloatTxt = append(c.FloatTxt, strconv.FormatFloat(f, 'g', -1, 64)+"/"+strconv.FormatUint(math.Float64bits(f), 16))
		}
		c.StrTxt = nil
		for _, s := range c.Strs {
			if s == nil {
				c.StrTxt = append(c.StrTxt, "<null>")
			} else {
				c.StrTxt = append(c.StrTxt, strconv.Quote(*s))
			}
		}
	}
}

// Data returns the map handed to qframe.New together with the options. The
// slices are the spec's own (qframe aliases int/float/bool input slices, so
// the harness keeps private copies when it needs to check the aliasing).
func (fs *FrameSpec) Data() (map[string]interface{}, []newqf.ConfigFunc) {
	data := map[string]interface{}{}
	var order []string
	enums := map[string][]string{}
	for _, c := range fs.Cols {
		order = append(order, c.Name)
		switch c.Type {
		case "int":
			data[c.Name] = c.Ints
		case "float":
			data[c.Name] = c.Floats
		case "bool":
			data[c.Name] = c.Bools
		case "string":
			data[c.Name] = c.Strs
		case "enum":
			data[c.Name] = c.Strs
			enums[c.Name] = c.EnumVals // nil = derive
		}
	}
	opts := []newqf.ConfigFunc{newqf.ColumnOrder(order...)}
	if len(enums) > 0 {
		opts = append(opts, newqf.Enums(enums))
	}
	return data, opts
}

// Build constructs the frame.
func (fs *FrameSpec) Build() qframe.QFrame {
	data, opts := fs.Data()
	return qframe.New(data, opts...)
}

// Col returns the spec of the named column.
func (fs *FrameSpec) Col(name string) *ColSpec {
	for i := range fs.Cols {
		if fs.Cols[i].Name == name {
			return &fs.Cols[i]
		}
	}
	return nil
}

// Scramble is a short sequence of index-changing operations that makes the
// physical and the logical row order of a frame differ.
type Scramble struct {
	Ops []ScrOp `json:"ops,omitempty"`
}

type ScrOp struct {
	Kind    string `json:"kind"` // sort slice keep
	Col     string `json:"col,omitempty"`
	Col2    string `json:"col2,omitempty"`
	Reverse bool   `json:"reverse,omitempty"`
	A       int    `json:"a,omitempty"`
	B       int    `json:"b,omitempty"`
	Key     uint64 `json:"key,omitempty"`
}

// DrawScramble draws 0..3 operations.
func DrawScramble(t *rapid.T, fs *FrameSpec) Scramble { return drawScramble(t, fs, allKinds) }

var (
	allKinds    = []int{0, 1, 2, 3, 4, 5, 6, 7} // 8 (overwrite) only where nothing is keyed by the generated column specs
	indexKinds  = []int{0, 1, 2}
	layoutKinds = []int{0, 1, 2, 0, 1, 2, 6, 7, 8, 9}
)

// DrawScrambleOrEmpty is DrawScramble that now and then ends in
// GroupBy().Aggregate() - a frame of one row and no columns.
func DrawScrambleOrEmpty(t *rapid.T, fs *FrameSpec) Scramble {
	s := drawScramble(t, fs, allKinds)
	if Rare(t, "nocolumns", 300) {
		s.Ops = append(s.Ops, ScrOp{Kind: "nocolumns"})
	}
	return s
}

// DrawIndexScramble draws index-changing operations only (the columns stay as generated).
func DrawIndexScramble(t *rapid.T, fs *FrameSpec) Scramble { return drawScramble(t, fs, indexKinds) }

// DrawLayoutScramble draws index-changing operations and rewrites of string
// columns in place (same name, same type, same rows): the column's bytes end
// up laid out in index order (built-in function applied to a sorted frame) or
// shared by all rows (constant), unlike anything New produces.
func DrawLayoutScramble(t *rapid.T, fs *FrameSpec) Scramble { return drawScramble(t, fs, layoutKinds) }

func drawScramble(t *rapid.T, fs *FrameSpec, kinds []int) Scramble {
	var s Scramble
	n := rapid.IntRange(0, 3).Draw(t, "nscramble")
	for i := 0; i < n; i++ {
		switch kinds[rapid.IntRange(0, len(kinds)-1).Draw(t, "scr")] {
		case 6:
			c := fs.Cols[rapid.IntRange(0, len(fs.Cols)-1).Draw(t, "upcol")]
			s.Ops = append(s.Ops, ScrOp{Kind: "upper", Col: c.Name})
		case 7:
			c := fs.Cols[rapid.IntRange(0, len(fs.Cols)-1).Draw(t, "constcol")]
			s.Ops = append(s.Ops, ScrOp{Kind: "const", Col: c.Name, A: rapid.IntRange(0, len(strPool)-1).Draw(t, "constval")})
		case 3:
			// GroupBy + Aggregate: the result frame's columns come from
			// different positions of the source frame
			k := fs.Cols[rapid.IntRange(0, len(fs.Cols)-1).Draw(t, "aggkey")]
			s.Ops = append(s.Ops, ScrOp{Kind: "agg", Col: k.Name, A: rapid.IntRange(0, 255).Draw(t, "aggpick")})
		case 4:
			s.Ops = append(s.Ops, ScrOp{Kind: "select", A: rapid.IntRange(0, 255).Draw(t, "selmask"), B: rapid.IntRange(0, 1).Draw(t, "selrev")})
		case 5:
			c := fs.Cols[rapid.IntRange(0, len(fs.Cols)-1).Draw(t, "cpcol")]
			s.Ops = append(s.Ops, ScrOp{Kind: "copy", Col: c.Name})
		case 9:
			// sorted on two columns, then the less significant one overwritten:
			// whatever the frame remembers about its order is out of date
			if len(fs.Cols) >= 3 {
				p := rapid.Permutation([]int{0, 1, 2}).Draw(t, "sortow")
				a, b2, c := fs.Cols[p[0]%len(fs.Cols)].Name, fs.Cols[p[1]%len(fs.Cols)].Name, fs.Cols[p[2]%len(fs.Cols)].Name
				s.Ops = append(s.Ops, ScrOp{Kind: "sort", Col: a, Col2: b2}, ScrOp{Kind: "overwrite", Col: b2, Col2: c})
			}
		case 8:
			// one column overwritten with the cells of another (same name, new content)
			dst := fs.Cols[rapid.IntRange(0, len(fs.Cols)-1).Draw(t, "owdst")]
			src := fs.Cols[rapid.IntRange(0, len(fs.Cols)-1).Draw(t, "owsrc")]
			s.Ops = append(s.Ops, ScrOp{Kind: "overwrite", Col: dst.Name, Col2: src.Name})
		case 0:
			c := fs.Cols[rapid.IntRange(0, len(fs.Cols)-1).Draw(t, "scol")]
			op := ScrOp{Kind: "sort", Col: c.Name, Reverse: rapid.Bool().Draw(t, "rev")}
			if rapid.Bool().Draw(t, "sort2") {
				op.Col2 = fs.Cols[rapid.IntRange(0, len(fs.Cols)-1).Draw(t, "scol2")].Name
			}
			s.Ops = append(s.Ops, op)
		case 1:
			s.Ops = append(s.Ops, ScrOp{Kind: "slice", A: rapid.IntRange(0, 3).Draw(t, "sa"), B: rapid.IntRange(0, 3).Draw(t, "sb")})
		case 2:
			s.Ops = append(s.Ops, ScrOp{Kind: "keep", Key: rapid.Uint64().Draw(t, "keepkey")})
		}
	}
	return s
}

// Apply applies the scramble (the result is what the checks observe; no
// reference semantics of these operations is assumed anywhere).
func (s Scramble) Apply(qf qframe.QFrame) qframe.QFrame {
	for _, op := range s.Ops {
		switch op.Kind {
		case "sort":
			if qf.Contains(op.Col) { // an earlier select/aggregate may have dropped it
				orders := []qframe.Order{{Column: op.Col, Reverse: op.Reverse}}
				if op.Col2 != "" && op.Col2 != op.Col && qf.Contains(op.Col2) {
					orders = append(orders, qframe.Order{Column: op.Col2})
				}
				qf = qf.Sort(orders...)
			}
		case "overwrite":
			if op.Col != op.Col2 && op.Col != "__id" && qf.Contains(op.Col) && qf.Contains(op.Col2) {
				if res := qf.Copy(op.Col, op.Col2); res.Err == nil {
					qf = res
				}
			}
		case "slice":
			n := qf.Len()
			a, b := op.A, n-op.B
			if a > n {
				a = n
			}
			if b < a {
				b = a
			}
			qf = qf.Slice(a, b)
		case "upper", "const":
			// string columns only, in place; anything else is left alone
			if !qf.Contains(op.Col) || qf.Len() == 0 {
				break
			}
			if typ := qf.ColumnTypeMap()[op.Col]; typ != types.String {
				break
			}
			var fn interface{} = "ToUpper"
			instr := qframe.Instruction{Fn: fn, DstCol: op.Col, SrcCol1: op.Col}
			if op.Kind == "const" {
				instr = qframe.Instruction{Fn: strings.ReplaceAll(strPool[op.A%len(strPool)], "\r", ""), DstCol: op.Col}
			}
			if res := qf.Apply(instr); res.Err == nil {
				qf = res
			}
		case "nocolumns":
			if qf.Len() > 0 {
				qf = qf.GroupBy().Aggregate()
			}
		case "agg":
			qf = applyAgg(qf, op)
		case "select":
			names := qf.ColumnNames()
			var keep []string
			for i, n := range names {
				if op.A>>(uint(i)%8)&1 == 1 {
					keep = append(keep, n)
				}
			}
			if len(keep) == 0 {
				keep = names
			}
			if op.B == 1 {
				for i, j := 0, len(keep)-1; i < j; i, j = i+1, j-1 {
					keep[i], keep[j] = keep[j], keep[i]
				}
			}
			qf = qf.Select(keep...)
		case "copy":
			// always a NEW column: overwriting a column produced by Aggregate
			// trips over a known, out-of-scope defect (stale position
			// bookkeeping, DESIGN.md §9)
			dst := op.Col + "_cp"
			for qf.Contains(dst) {
				dst += "_cp"
			}
			if qf.Contains(op.Col) {
				qf = qf.Copy(dst, op.Col)
			}
		case "keep":
			r := core.NewSplitMix(op.Key)
			n := qf.Len()
			keep := make([]bool, n)
			for i := range keep {
				keep[i] = r.Intn(4) != 0
			}
			i := -1
			qf = qf.WithRowNums("__rn").Filter(qframe.Filter{Column: "__rn", Comparator: func(x int) bool { i++; return x < len(keep) && keep[x] }}).Drop("__rn")
		}
	}
	return qf
}

// DrawBigFrame draws a frame of a few thousand rows whose cells are computed
// from a sub-stream key (size thresholds: output buffers, chunked writes).
func DrawBigFrame(t *rapid.T, minRows, maxRows int) *FrameSpec {
	n := rapid.IntRange(minRows, maxRows).Draw(t, "bigrows")
	r := core.NewSplitMix(rapid.Uint64().Draw(t, "bigkey"))
	fs := &FrameSpec{NRows: n}
	a := ColSpec{Name: "a", Type: "int", Ints: make([]int, n)}
	b := ColSpec{Name: "b", Type: "string", Strs: make([]*string, n)}
	c := ColSpec{Name: "c", Type: "float", Floats: make([]float64, n)}
	for i := 0; i < n; i++ {
		a.Ints[i] = int(r.Uint64()%2000) - 1000
		s := strPool[r.Intn(len(strPool))] + strconv.Itoa(i%97)
		b.Strs[i] = &s
		c.Floats[i] = []float64{0, 1.5, -2.25, 0.1, 1e21, 123456789.125, -1}[r.Intn(7)]
	}
	fs.Cols = []ColSpec{a, b, c}
	// now and then an enum column whose value set is derived from the data,
	// with a cardinality at or next to the limit of 255
	if card := []int{0, 0, 3, 200, 254, 255}[rapid.IntRange(0, 5).Draw(t, "bigenum")]; card > 0 && n >= card {
		e := ColSpec{Name: "e", Type: "enum", Strs: make([]*string, n)}
		for i := 0; i < n; i++ {
			v := i
			if i >= card {
				v = r.Intn(card)
			}
			s := "v" + strconv.Itoa(v)
			if v%50 == 7 {
				s += strPool[v%len(strPool)]
			}
			s = strings.ReplaceAll(s, "\r", "")
			e.Strs[i] = &s
		}
		fs.Cols = append(fs.Cols, e)
	}
	return fs
}

// DrawGiantFrame draws a frame beyond the row counts at which an
// implementation may switch strategy (8192, 16384, 32768 rows; thousands of
// groups): an int column of high cardinality, a string column of few values
// with nulls, a float column of few values and the hidden unique id.
func DrawGiantFrame(t *rapid.T) *FrameSpec {
	band := rapid.IntRange(0, 9).Draw(t, "giantband")
	lo := 8193
	if band >= 5 {
		lo = 16385
	}
	if band >= 8 {
		lo = 32769
	}
	n := lo + rapid.IntRange(0, 700).Draw(t, "giantextra")
	r := core.NewSplitMix(rapid.Uint64().Draw(t, "giantkey"))
	fs := &FrameSpec{NRows: n}
	a := ColSpec{Name: "c0", Type: "int", Ints: make([]int, n)}
	b := ColSpec{Name: "c1", Type: "string", Strs: make([]*string, n)}
	c := ColSpec{Name: "c2", Type: "float", Floats: make([]float64, n)}
	id := ColSpec{Name: "__id", Type: "int", Ints: make([]int, n)}
	card := 2100 + r.Intn(3000)
	for i := 0; i < n; i++ {
		a.Ints[i] = r.Intn(card) - card/2
		if r.Intn(9) != 0 {
			s := []string{"", "a", "b", "ab", "A", "abc"}[r.Intn(6)]
			b.Strs[i] = &s
		}
		c.Floats[i] = []float64{0, math.Copysign(0, -1), 1, 1.5, -1, nanA}[r.Intn(6)]
		id.Ints[i] = i
	}
	fs.Cols = []ColSpec{a, b, c, id}
	return fs
}

// DrawStressFrame is a frame of one float column with 64..256 values from
// StressFloats (and the row number): one simulated run carries hundreds of
// floats through the writer and the reader.
func DrawStressFrame(t *rapid.T) *FrameSpec {
	n := rapid.IntRange(64, 256).Draw(t, "stressrows")
	fl := StressFloats(rapid.Uint64().Draw(t, "stresskey"), n)
	ids := make([]int, n)
	for i := range ids {
		ids[i] = i
	}
	return &FrameSpec{NRows: n, Cols: []ColSpec{{Name: "i", Type: "int", Ints: ids}, {Name: "f", Type: "float", Floats: fl}}}
}

// applyAgg groups by op.Col (when present) and aggregates every other column
// with a function that keeps its type: the result is an ordinary frame whose
// columns were taken from other positions of the source frame.
func applyAgg(qf qframe.QFrame, op ScrOp) qframe.QFrame {
	if !qf.Contains(op.Col) || qf.Len() == 0 {
		return qf
	}
	names, typs := qf.ColumnNames(), qf.ColumnTypes()
	var aggs []qframe.Aggregation
	// aggregate the columns in reverse order so that result positions differ from source positions
	for i := len(names) - 1; i >= 0; i-- {
		n := names[i]
		if n == op.Col {
			continue
		}
		switch string(typs[i]) {
		case "int":
			aggs = append(aggs, qframe.Aggregation{Fn: []interface{}{"sum", "max", "min"}[(op.A+i)%3], Column: n})
		case "float":
			aggs = append(aggs, qframe.Aggregation{Fn: []interface{}{"max", "min"}[(op.A+i)%2], Column: n})
		case "bool":
			aggs = append(aggs, qframe.Aggregation{Fn: "majority", Column: n})
		case "string", "enum":
			aggs = append(aggs, qframe.Aggregation{Fn: func(xs []*string) *string {
				if len(xs) == 0 {
					return nil
				}
				return xs[len(xs)-1]
			}, Column: n})
		}
	}
	res := qf.GroupBy(groupby.Columns(op.Col), groupby.Null(true)).Aggregate(aggs...)
	if res.Err != nil {
		return qf
	}
	// group order depends on the hash function: fix it so that the derived frame is reproducible
	var orders []qframe.Order
	for _, n := range res.ColumnNames() {
		orders = append(orders, qframe.Order{Column: n})
	}
	return res.Sort(orders...)
}

// ViaCSV writes the frame with ToCSV and reads it back with the column types
// declared: the same columns and rows (up to null/empty strings and NaN
// payloads), built by the CSV reader instead of New - other buffers, other
// layouts. ok is false when the detour does not give a frame of the same shape
// (strings with CR, for one); callers then keep the original.
func ViaCSV(qf qframe.QFrame, emptyNull bool) (qframe.QFrame, bool) {
	if qf.Err != nil || len(qf.ColumnNames()) == 0 {
		return qf, false
	}
	var buf bytes.Buffer
	if err := qf.ToCSV(&buf); err != nil {
		return qf, false
	}
	typs := map[string]string{}
	for n, t := range qf.ColumnTypeMap() {
		typs[n] = string(t)
	}
	back := qframe.ReadCSV(&buf, csv.Types(typs), csv.EmptyNull(emptyNull))
	if back.Err != nil || back.Len() != qf.Len() || fmt.Sprint(back.ColumnNames()) != fmt.Sprint(qf.ColumnNames()) || fmt.Sprint(back.ColumnTypes()) != fmt.Sprint(qf.ColumnTypes()) {
		return qf, false
	}
	return back, true
}
