// Package gen holds the seeded generators (rapid is the only choice source).
package gen

import (
	"math"
	"strconv"
	"strings"

	"pgregory.net/rapid"

	"verifsim/sim/core"
)

// CSVCase is a logical table, the way it is rendered, and the configuration
// it is read with.
type CSVCase struct {
	Names []string   `json:"names"`
	Rows  [][]string `json:"rows"`

	Delim      byte     `json:"delim"`
	CRLF       bool     `json:"crlf"`
	FinalBreak bool     `json:"final_break"`
	Quoted     [][]bool `json:"-"` // [row+1][col], row 0 = header
	BlankAfter []bool   `json:"blank_after,omitempty"`

	EmptyNull        bool                `json:"empty_null"`
	IgnoreEmptyLines bool                `json:"ignore_empty_lines"`
	UseHeaders       bool                `json:"use_headers"` // Headers(...) option, document has no header row
	Types            map[string]string   `json:"types,omitempty"`
	EnumVals         map[string][]string `json:"enum_vals,omitempty"`
	RowCountHint     int                 `json:"row_count_hint,omitempty"`
	Rename           bool                `json:"rename,omitempty"`
	Alias            string              `json:"alias,omitempty"`
	OddHeader        bool                `json:"odd_header,omitempty"`  // header contains empty/duplicate names
	AliasTyped       bool                `json:"alias_typed,omitempty"` // Types declares "string" for the aliased (nameless) column

	// EOLSwitch > 0: from that line on the other line ending is used; EOLKey != 0:
	// every line end is LF or CRLF as the key says (both are row ends of RFC 4180,
	// a document may mix them)
	EOLSwitch int    `json:"eol_switch_at_line,omitempty"`
	EOLKey    uint64 `json:"eol_per_line_key,omitempty"`
	Doc       []byte `json:"-"`
	// DocText is Doc quoted for the trace.
	DocText string `json:"doc"`
}

var delims = []byte{',', ',', ',', ';', '\t', '|', ' ', 'x', '0', 0x00, 0xff}

var strPieces = []string{"a", "b", "abc", "x", " ", "  ", "\"", "\"\"", "\n", "é", "\xff", "\xc3", "0", "t", "-", ".", "'", "$", "Z", "漢",
	// what other dialects give a meaning to: end-of-file marker, null spellings, comment and directive starts
	"\x1a", "\\N", "NA", "NULL", "null", "#", "\x00", ",", ";", "="}
var intCells = []string{"0", "1", "-1", "12", "+7", "007", "123456789", "-0", "9223372036854775807"}
var floatCells = []string{"1.5", "-2.25", "1e3", "NaN", "inf", "-Inf", "0.1", ".5", "5.", "1E-7", "-0.0", "0x1p-2", "9300000000000000000", "18446744073709551615", "123456789012345678901234567890", "0.30000000000000004", "100000000000000000000000000000000000000000", "0.00000000000000000000000000000000000001", "-12345678901234567890123456789012345.5",
	// beyond the float64 range: strconv reports them as out of range, they are not floats
	"1e309", "-2.5E+999", "1.7976931348623159e308", "1" + strings.Repeat("0", 400), "1_000", "0b11", "+.e1", "1e", "Infinity", "+inf", "nan",
	// decimal commas and thousands separators: text, not numbers
	"1,5", "2,25", "-3,0", "1.000,5", "1,000.5", "1 000", "$5", "5%"}
var boolCells = []string{"true", "false", "t", "f", "T", "F", "TRUE", "False", "1", "0", "1", "0", "true", "false", "True", "FALSE",
	// spellings strconv.ParseBool does not accept
	"tRUE", "TRue", "FALSe", "fALSE", "tr", "yes", "Y", "01"}

func drawCell(t *rapid.T, flavour int, delim byte, long bool) string {
	k := rapid.IntRange(0, 9).Draw(t, "cellkind")
	if k == 0 {
		return ""
	}
	if k >= 7 {
		// off-flavour cell
		flavour = rapid.IntRange(0, 4).Draw(t, "offflavour")
	}
	switch flavour {
	case 0:
		return intCells[rapid.IntRange(0, len(intCells)-1).Draw(t, "int")]
	case 1:
		if rapid.Bool().Draw(t, "fint") {
			return intCells[rapid.IntRange(0, len(intCells)-1).Draw(t, "int")]
		}
		return floatCells[rapid.IntRange(0, len(floatCells)-1).Draw(t, "float")]
	case 2:
		return boolCells[rapid.IntRange(0, len(boolCells)-1).Draw(t, "bool")]
	default:
		n := rapid.IntRange(1, 4).Draw(t, "npieces")
		var sb strings.Builder
		for i := 0; i < n; i++ {
			p := rapid.IntRange(0, len(strPieces)).Draw(t, "piece")
			if p == len(strPieces) {
				sb.WriteByte(delim)
			} else {
				sb.WriteString(strPieces[p])
			}
		}
		if long && rapid.IntRange(0, 5).Draw(t, "long") == 0 {
			// a field that crosses the scanner's 1 KiB buffer and its doublings
			target := []int{1000, 1023, 1024, 1025, 2047, 2049, 3000, 4100, 5200}[rapid.IntRange(0, 8).Draw(t, "longlen")]
			unit := sb.String()
			for sb.Len() < target {
				sb.WriteString(unit)
				sb.WriteString("pad")
			}
		}
		return sb.String()
	}
}

func needsQuote(s string, delim byte) bool {
	for i := 0; i < len(s); i++ {
		c := s[i]
		if c == '"' || c == delim || c == '\n' || c == '\r' {
			return true
		}
	}
	return false
}

func validName(s string) bool {
	if len(s) == 0 || strings.HasPrefix(s, "$") {
		return false
	}
	if len(s) > 2 && ((s[0] == '\'' && s[len(s)-1] == '\'') || (s[0] == '"' && s[len(s)-1] == '"')) {
		return false
	}
	return true
}

// CSVBounds sizes the generated tables.
type CSVBounds struct {
	MaxCols, MaxRows int
	Long             bool
	BigRows          bool // allow the >=1000 row RowCountHint path
	BigRare          bool // ... but rarely (quick tier)
	Cardinality      bool // now and then a column with 254..258 distinct values declared enum
	HugeCell         bool // very rarely one cell beyond 16 MiB
}

// DrawCSV draws a well-formed document inside the space whose meaning is
// unambiguous (see DESIGN.md §3 C12).
func DrawCSV(t *rapid.T, b CSVBounds) *CSVCase {
	c := &CSVCase{}
	c.Delim = delims[rapid.IntRange(0, len(delims)-1).Draw(t, "delim")]
	ncols := rapid.IntRange(1, b.MaxCols).Draw(t, "ncols")
	nrows := rapid.IntRange(0, b.MaxRows).Draw(t, "nrows")
	// many columns of the same name: the renaming counter goes beyond one digit
	manyDups := Rare(t, "manydups", 150)
	if manyDups {
		ncols = rapid.IntRange(11, 14).Draw(t, "manydupcols")
		if nrows > 3 {
			nrows = 3
		}
	}
	if !manyDups && Rare(t, "manycols", 300) {
		// more columns than bits in a machine word
		ncols = rapid.IntRange(63, 70).Draw(t, "manycolsn")
		if nrows > 3 {
			nrows = 3
		}
	}
	big := false
	bigOdds := uint64(60)
	if b.BigRare {
		bigOdds = 1500
	}
	growAfter, growBy := 0, 0
	if b.BigRows && !manyDups && Rare(t, "big", bigOdds) {
		// the RowCountHint path: >= 1000 rows; sometimes far more rows than the
		// hint promises and cells that get longer after the first 1000 rows, so
		// that the pre-sized column buffers are outgrown
		nrows = []int{1000, 1001, 1100, 2600, 3500}[rapid.IntRange(0, 4).Draw(t, "bigrows")]
		growAfter = []int{0, 1000, 1200}[rapid.IntRange(0, 2).Draw(t, "growafter")]
		growBy = rapid.IntRange(0, 12).Draw(t, "growby")
		big = true
	}
	c.CRLF = rapid.Bool().Draw(t, "crlf")
	c.FinalBreak = rapid.Bool().Draw(t, "finalbreak")
	c.EmptyNull = rapid.Bool().Draw(t, "emptynull")
	c.IgnoreEmptyLines = rapid.Bool().Draw(t, "ignoreempty")
	c.UseHeaders = rapid.IntRange(0, 4).Draw(t, "useheaders") == 0
	quoteMode := rapid.IntRange(0, 2).Draw(t, "quotemode") // 0 when needed, 1 always, 2 per cell

	// header
	// empty and repeated names, in the header row or in the Headers option
	odd := manyDups || rapid.IntRange(0, 12).Draw(t, "oddheader") == 0
	seen := map[string]bool{}
	for i := 0; i < ncols; i++ {
		var name string
		if manyDups && i > 0 && (i < 11 || rapid.Bool().Draw(t, "dupmore")) {
			name = c.Names[0]
			c.OddHeader = true
		} else if odd && !manyDups && rapid.IntRange(0, 2).Draw(t, "oddname") == 0 {
			switch k := rapid.IntRange(0, 2).Draw(t, "oddkind"); {
			case k == 0 || i == 0:
				name = ""
			case k == 1:
				name = c.Names[rapid.IntRange(0, i-1).Draw(t, "dupof")]
			default:
				// a literal name that is exactly what renaming an earlier
				// duplicate would pick ("a", "a", "a0")
				name = c.Names[rapid.IntRange(0, i-1).Draw(t, "dupof")] + strconv.Itoa(rapid.IntRange(0, 1).Draw(t, "litsuffix"))
				if seen[name] || !validName(name) {
					name = c.Names[i-1]
				}
			}
			c.OddHeader = true
		} else {
			for try := 0; ; try++ {
				name = "c" + strconv.Itoa(i)
				if try > 1 {
					name += "_" + strconv.Itoa(try) // "c10" may exist already as the renamed-duplicate look-alike of "c1"
				}
				if try == 0 && rapid.IntRange(0, 3).Draw(t, "fancyname") == 0 {
					name = drawCell(t, 3, c.Delim, false)
				}
				if try == 0 && i == 0 && Rare(t, "directivename", 60) {
					// names that look like a directive of some spreadsheet dialect
					name = []string{"sep=;", "sep=,", "sep=|", "sep=", "#comment", "\ufeffid"}[rapid.IntRange(0, 5).Draw(t, "directive")]
				}
				if validName(name) && !seen[name] && !strings.Contains(name, "\r") {
					break
				}
			}
		}
		seen[name] = true
		c.Names = append(c.Names, name)
	}
	if c.OddHeader {
		c.Rename = manyDups || rapid.Bool().Draw(t, "rename")
		if rapid.Bool().Draw(t, "usealias") {
			c.Alias = "missing"
		}
	}

	// cells
	flav := make([]int, ncols)
	for i := range flav {
		flav[i] = rapid.IntRange(0, 4).Draw(t, "flavour")
	}
	giantRow := -1
	if b.Long && !big && !c.OddHeader && Rare(t, "giant", 2500) {
		// one row far beyond 32 KiB (the scan buffer doubles six times),
		// followed by well over a kilobyte of ordinary rows
		nrows = rapid.IntRange(40, 70).Draw(t, "giantrows")
		giantRow = rapid.IntRange(0, 3).Draw(t, "giantat")
	}
	cardinality := 0
	if b.Cardinality && !big && !c.OddHeader && Rare(t, "cardinality", 300) {
		// the enum cardinality limit: one column with 254..258 distinct values
		cardinality = rapid.IntRange(254, 258).Draw(t, "distinctvals")
		nrows = cardinality + rapid.IntRange(0, 3).Draw(t, "cardextra")
	}
	hugeCellOdds := uint64(10000)
	if b.BigRare {
		hugeCellOdds = 30000
	}
	hugeCell := b.HugeCell && !big && giantRow < 0 && cardinality == 0 && !c.OddHeader && Rare(t, "hugecell", hugeCellOdds)
	if hugeCell {
		// one cell beyond 16 MiB (length fields of 24 bits and their like)
		nrows = rapid.IntRange(1, 3).Draw(t, "hugerows")
	}
	for r := 0; r < nrows; r++ {
		row := make([]string, ncols)
		for i := range row {
			if hugeCell && r == nrows-1 && i == 0 {
				// 16 MiB + 16 bytes, now and then 33 MiB + 16 bytes
				row[i] = strings.Repeat("0123456789abcdef", []int{1 << 20, 1 << 20, 33 << 16}[rapid.IntRange(0, 2).Draw(t, "hugelen")]) + "tail-of-the-cell"
				continue
			}
			if big {
				row[i] = strconv.Itoa(r*7 + i)
				if flav[i] >= 3 {
					row[i] = "v" + row[i]
					if growAfter > 0 && r >= growAfter {
						row[i] += strings.Repeat("w", growBy*(1+i%2))
					}
				}
			} else if giantRow >= 0 {
				row[i] = "r" + strconv.Itoa(r) + "c" + strconv.Itoa(i) + strings.Repeat("x", 25)
				if r == giantRow && i == ncols-1 {
					row[i] = strings.Repeat("giant,\"cell\"\n", []int{2400, 2800, 4700, 5000}[rapid.IntRange(0, 3).Draw(t, "giantlen")])
				}
			} else if cardinality > 0 {
				row[i] = "v" + strconv.Itoa((r*7+i)%cardinality)
				if i > 0 {
					row[i] = strconv.Itoa(r % 5)
				}
			} else {
				row[i] = drawCell(t, flav[i], c.Delim, b.Long)
			}
		}
		c.Rows = append(c.Rows, row)
	}
	if big {
		c.RowCountHint = []int{0, 1500, 2001, 5000}[rapid.IntRange(0, 3).Draw(t, "hint")]
	} else if rapid.IntRange(0, 6).Draw(t, "hint") == 0 {
		c.RowCountHint = rapid.IntRange(0, 4000).Draw(t, "hintval")
	}

	// a type declared under the ALIAS of a column without a name: options
	// that refer to columns by name must see the names the frame ends up with
	if c.OddHeader && c.Alias != "" && !big {
		empties, dups := 0, false
		seenN := map[string]bool{}
		for _, n := range c.Names {
			if n == "" {
				empties++
			} else if seenN[n] {
				dups = true
			}
			seenN[n] = true
		}
		if empties == 1 && !dups && !seenN[c.Alias] && rapid.Bool().Draw(t, "aliastype") {
			c.Types = map[string]string{c.Alias: "string"}
			c.AliasTyped = true
		}
	}
	// declared types
	if cardinality > 0 {
		c.Types = map[string]string{c.Names[0]: "enum"}
	} else if !c.OddHeader && rapid.IntRange(0, 2).Draw(t, "declare") == 0 {
		c.Types = map[string]string{}
		for i, n := range c.Names {
			switch rapid.IntRange(0, 7).Draw(t, "decl") {
			case 0:
				c.Types[n] = "string"
			case 1:
				c.Types[n] = "enum"
				if rapid.Bool().Draw(t, "enumvals") {
					// declare the values present (in order of first occurrence), sometimes minus one
					var vals []string
					has := map[string]bool{}
					for _, row := range c.Rows {
						v := row[i]
						if v == "" && c.EmptyNull {
							continue
						}
						if !has[v] {
							has[v] = true
							vals = append(vals, v)
						}
					}
					if len(vals) > 1 && rapid.IntRange(0, 5).Draw(t, "dropval") == 0 {
						vals = vals[:len(vals)-1]
					}
					if len(vals) > 0 && len(vals) <= 255 {
						if c.EnumVals == nil {
							c.EnumVals = map[string][]string{}
						}
						c.EnumVals[n] = vals
					}
				}
			case 2:
				c.Types[n] = []string{"int", "float", "bool"}[rapid.IntRange(0, 2).Draw(t, "numdecl")]
			}
		}
	}

	// rendering
	c.Quoted = make([][]bool, nrows+1)
	for r := 0; r <= nrows; r++ {
		c.Quoted[r] = make([]bool, ncols)
		for i := 0; i < ncols; i++ {
			var cell string
			if r == 0 {
				cell = c.Names[i]
			} else {
				cell = c.Rows[r-1][i]
			}
			q := needsQuote(cell, c.Delim)
			if !q {
				switch quoteMode {
				case 1:
					q = true
				case 2:
					q = rapid.Bool().Draw(t, "quote")
				}
			}
			if ncols == 1 && cell == "" {
				// a one-column empty cell is an empty line: never quoted, so that
				// "empty line" and "empty cell" are the same thing in the generated space
				q = false
			}
			c.Quoted[r][i] = q
		}
	}
	if c.IgnoreEmptyLines && ncols > 1 && !big {
		c.BlankAfter = make([]bool, nrows+1)
		for r := range c.BlankAfter {
			c.BlankAfter[r] = rapid.IntRange(0, 5).Draw(t, "blank") == 0
		}
	}
	switch rapid.IntRange(0, 11).Draw(t, "eolmode") {
	case 0:
		c.EOLKey = rapid.Uint64().Draw(t, "eolkey") | 1
	case 1:
		at := []int{1, 2, 3, 150, 201, 202, 260, 700}[rapid.IntRange(0, 7).Draw(t, "eolswitch")]
		if at <= nrows {
			c.EOLSwitch = at
		}
	}
	c.render()
	return c
}

func (c *CSVCase) render() {
	var sb []byte
	eol := "\n"
	if c.CRLF {
		eol = "\r\n"
	}
	ncols := len(c.Names)
	nlines := 0
	lastEmptyLine := false
	base := eol
	other := map[string]string{"\n": "\r\n", "\r\n": "\n"}[eol]
	setEOL := func() {
		// the line end that closes line number nlines-1
		eol = base
		if c.EOLSwitch > 0 && nlines >= c.EOLSwitch {
			eol = other
		}
		if c.EOLKey != 0 && core.Hash64(c.EOLKey, nlines)&1 == 1 {
			eol = other
		}
	}
	writeRow := func(cells []string, q []bool) {
		setEOL()
		if nlines > 0 {
			sb = append(sb, eol...)
		}
		nlines++
		for i, cell := range cells {
			if i > 0 {
				sb = append(sb, c.Delim)
			}
			if q[i] {
				sb = append(sb, '"')
				sb = append(sb, strings.ReplaceAll(cell, "\"", "\"\"")...)
				sb = append(sb, '"')
			} else {
				sb = append(sb, cell...)
			}
		}
		lastEmptyLine = ncols == 1 && cells[0] == ""
	}
	blank := func(r int) {
		if c.BlankAfter != nil && c.BlankAfter[r] {
			setEOL()
			if nlines > 0 {
				sb = append(sb, eol...)
			}
			nlines++
			lastEmptyLine = true
		}
	}
	if !c.UseHeaders {
		writeRow(c.Names, c.Quoted[0])
		blank(0)
	}
	for r, row := range c.Rows {
		writeRow(row, c.Quoted[r+1])
		blank(r + 1)
	}
	// The one ambiguity of the format: a last line that is empty and has no
	// line break is indistinguishable from "no such line". Always terminate it.
	if nlines > 0 && (c.FinalBreak || lastEmptyLine) {
		setEOL()
		sb = append(sb, eol...)
		c.FinalBreak = true
	}
	c.Doc = sb
	c.DocText = strconv.Quote(string(sb))
}

// Expected is what the document denotes (R2). ExpectErr means the
// configuration cannot be satisfied by the cells and an error is required.
type Expected struct {
	Skip      string // non-empty: R2 not applicable (reason)
	ExpectErr bool
	Names     []string
	Types     []string   // int/float/bool/string/enum/Undefined
	Cells     [][]string // [col][row] canonical text as produced by obs
	Len       int
}

func fbits(f float64) string { return "f:" + strconv.FormatUint(math.Float64bits(f), 16) }

// Expect computes the denotation from the logical table using strconv (the
// definition the code documents) — not from any implementation constant.
func (c *CSVCase) Expect() *Expected {
	e := &Expected{}
	if c.OddHeader {
		e.Skip = "header with empty/duplicate names: only the documented promises are checked"
		return e
	}
	rows := c.Rows
	if len(c.Names) == 1 && c.IgnoreEmptyLines {
		var kept [][]string
		for _, r := range rows {
			if r[0] != "" {
				kept = append(kept, r)
			}
		}
		rows = kept
	}
	e.Names = append([]string{}, c.Names...)
	e.Len = len(rows)
	for i, name := range c.Names {
		declared := c.Types[name]
		col := make([]string, 0, len(rows))
		for _, r := range rows {
			col = append(col, r[i])
		}
		typ := ""
		var cells []string
		try := func(kind string) bool {
			cells = cells[:0]
			for _, v := range col {
				switch kind {
				case "int":
					x, err := strconv.Atoi(v)
					if err != nil {
						return false
					}
					cells = append(cells, "i:"+strconv.Itoa(x))
				case "float":
					if v == "" {
						cells = append(cells, "NaN")
						continue
					}
					x, err := strconv.ParseFloat(v, 64)
					if err != nil {
						return false
					}
					if math.IsNaN(x) {
						cells = append(cells, "NaN")
					} else {
						cells = append(cells, fbits(x))
					}
				case "bool":
					x, err := strconv.ParseBool(v)
					if err != nil {
						return false
					}
					cells = append(cells, "b:"+strconv.FormatBool(x))
				}
			}
			return true
		}
		strCells := func() {
			cells = cells[:0]
			for _, v := range col {
				if v == "" && c.EmptyNull {
					cells = append(cells, "null")
				} else {
					cells = append(cells, "s:"+strconv.Quote(v))
				}
			}
		}
		switch declared {
		case "":
			if len(col) == 0 {
				typ = "Undefined"
			} else if try("int") {
				typ = "int"
			} else if try("float") {
				typ = "float"
			} else if try("bool") {
				typ = "bool"
			} else {
				typ = "string"
				strCells()
			}
		case "int", "float", "bool":
			if !try(declared) {
				e.ExpectErr = true
				return e
			}
			typ = declared
		case "string":
			typ = "string"
			strCells()
		case "enum":
			typ = "enum"
			strCells()
			if vals, ok := c.EnumVals[name]; ok {
				set := map[string]bool{}
				for _, v := range vals {
					set[v] = true
				}
				for _, v := range col {
					if v == "" && c.EmptyNull {
						continue
					}
					if !set[v] {
						e.ExpectErr = true
						return e
					}
				}
			} else {
				distinct := map[string]bool{}
				for _, v := range col {
					if !(v == "" && c.EmptyNull) {
						distinct[v] = true
					}
				}
				if len(distinct) > 255 {
					e.ExpectErr = true
					return e
				}
			}
		}
		e.Types = append(e.Types, typ)
		e.Cells = append(e.Cells, append([]string{}, cells...))
	}
	return e
}
