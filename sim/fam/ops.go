package fam

import (
	"bytes"
	"fmt"
	"math"
	"sort"
	"strconv"
	"strings"

	"github.com/tobgu/qframe"
	"github.com/tobgu/qframe/aggregation"
	"github.com/tobgu/qframe/config/csv"
	"github.com/tobgu/qframe/config/eval"
	"github.com/tobgu/qframe/config/groupby"
	"github.com/tobgu/qframe/filter"
	"github.com/tobgu/qframe/types"
	"pgregory.net/rapid"

	"verifsim/sim/obs"
)

func mathBits(f float64) uint64 { return math.Float64bits(f) }

// OpDesc is an operation as drawn: abstract picks that are resolved against
// the receiver's schema when the operation is about to run.
type OpDesc struct {
	// Last: the receiver is the most recently added member (whatever the
	// build phase produced last, e.g. a frame in error state).
	Last bool  `json:"last,omitempty"`
	Kind int   `json:"kind"`
	Recv int   `json:"recv"`
	Arg  int   `json:"arg"`
	N    []int `json:"n"`
}

const nParams = 10

// DrawOp draws one abstract operation.
func DrawOp(t *rapid.T) OpDesc {
	d := OpDesc{
		Kind: rapid.IntRange(0, 63).Draw(t, "opkind"),
		Recv: rapid.IntRange(0, 63).Draw(t, "recv"),
		Arg:  rapid.IntRange(0, 63).Draw(t, "arg"),
	}
	for i := 0; i < nParams; i++ {
		d.N = append(d.N, rapid.IntRange(0, 255).Draw(t, "p"))
	}
	return d
}

// DrawSibling draws an operation that is, one time in three, a variation of
// prev: same kind and receiver, a few parameters re-drawn. Siblings derived
// from one value in slightly different ways are what makes frames share (and,
// in a defective implementation, fight over) column and index storage.
func DrawSibling(t *rapid.T, prev *OpDesc) OpDesc {
	if prev == nil || rapid.IntRange(0, 2).Draw(t, "sibling") != 0 {
		return DrawOp(t)
	}
	d := OpDesc{Last: prev.Last, Kind: prev.Kind, Recv: prev.Recv, Arg: prev.Arg, N: append([]int{}, prev.N...)}
	n := rapid.IntRange(1, 3).Draw(t, "nvary")
	for i := 0; i < n; i++ {
		d.N[rapid.IntRange(0, nParams-1).Draw(t, "vary")] = rapid.IntRange(0, 255).Draw(t, "p")
	}
	return d
}

// DrawStorm draws the programs of a "storm": every client runs the same
// operation on the same receiver, give or take a parameter - the pattern in
// which a first-use initialisation or a per-operation cache is hit by several
// callers at once.
func DrawStorm(t *rapid.T, nclients int) [][]OpDesc {
	d0 := DrawOp(t)
	switch rapid.IntRange(0, 10).Draw(t, "stormkind") {
	case 0, 1, 2, 3:
		d0.Kind = 0 // filters are the hot path where caches and fast paths get added
	case 4, 5:
		d0.Kind = len(frameOps) - 2 // "renew": several callers building frames at once
	case 6:
		d0.Kind = kindIndex("equals") // all callers comparing two (possibly large) frames
	case 7, 8:
		// all callers grouping at once (tables, pools and seeds shared by groupings)
		d0.Kind = kindIndex([]string{"aggregate-direct", "groupby", "distinct"}[rapid.IntRange(0, 2).Draw(t, "stormgroup")])
	case 9:
		// all callers serialising at once
		d0.Kind = kindIndex([]string{"tojson", "tocsv", "string"}[rapid.IntRange(0, 2).Draw(t, "stormser")])
	}
	switch rapid.IntRange(0, 3).Draw(t, "stormrecv") {
	case 0, 1:
		d0.Recv = 0 // on the first base frame (the one that is sometimes huge)
	case 2:
		d0.Last = true // on whatever was derived last
	}
	progs := make([][]OpDesc, nclients)
	for c := range progs {
		d := OpDesc{Last: d0.Last, Kind: d0.Kind, Recv: d0.Recv, Arg: d0.Arg, N: append([]int{}, d0.N...)}
		if rapid.Bool().Draw(t, "stormvary") {
			d.N[rapid.IntRange(0, nParams-1).Draw(t, "vary")] = rapid.IntRange(0, 255).Draw(t, "p")
		}
		progs[c] = []OpDesc{d}
		if rapid.IntRange(0, 3).Draw(t, "stormsecond") == 0 {
			progs[c] = append(progs[c], DrawSibling(t, &d))
		}
	}
	return progs
}

// Outcome of one execution of an operation.
type Outcome struct {
	Canon string
	New   []*Member
	Panic string
	// ArgChanged is set when a value the caller passed IN (a filter clause, a
	// list of column names) is not what it was before the call.
	ArgChanged string
}

// guarded hands out cols as a prefix of a longer array whose next element is
// a sentinel: an operation that appends to the slice it was given writes over
// the sentinel. check reports what changed, "" if nothing.
func guarded(cols []string) (passed []string, check func() string) {
	full := make([]string, len(cols)+1)
	copy(full, cols)
	full[len(cols)] = "\x00sentinel"
	want := append([]string{}, cols...)
	return full[:len(cols)], func() string {
		if full[len(cols)] != "\x00sentinel" {
			return fmt.Sprintf("the array behind the column list %q was written beyond its length: %q", want, full[len(cols)])
		}
		for i := range want {
			if full[i] != want[i] {
				return fmt.Sprintf("column list %q became %q", want, full[:len(cols)])
			}
		}
		return ""
	}
}

// Exec is a resolved operation: operands and parameters are fixed, Run can be
// executed any number of times (every run builds fresh closures).
type Exec struct {
	Debug  string
	D      OpDesc
	Other  *Member
	Kind   string
	Desc   string
	Recv   *Member
	Mutual bool // the result has an unspecified order (compared as a set)
	Run    func() *Outcome
}

var frameOps = []string{
	"filter", "filter", "filter", "sort", "sort", "slice", "select", "drop", "copy",
	"apply", "apply", "filteredapply", "eval", "eval", "rownums", "distinct", "groupby", "groupby",
	"tocsv", "tojson", "string", "equals", "misc", "view", "view", "aggregate-direct",
	"tojson", "tojson-fault", "tocsv-fault", "renew", "bad-filter",
}

// gbOpts: the grouping options in either order.
func gbOpts(cols []string, null bool, order int) []groupby.ConfigFunc {
	if order%2 == 1 {
		return []groupby.ConfigFunc{groupby.Null(null), groupby.Columns(cols...)}
	}
	return []groupby.ConfigFunc{groupby.Columns(cols...), groupby.Null(null)}
}

func kindIndex(kind string) int {
	for i, k := range frameOps {
		if k == kind {
			return i
		}
	}
	return 0
}

func pick(d OpDesc, i int) int { return d.N[i%len(d.N)] }

func strPtr(s string) *string { return &s }

// Resolve turns an abstract operation into an executable one against the
// current family.
func Resolve(w *World, d OpDesc, client int) *Exec {
	recv := w.Members[d.Recv%len(w.Members)]
	if d.Last {
		recv = w.Members[len(w.Members)-1]
	}
	return ResolveWith(w, d, client, recv, w.Members[d.Arg%len(w.Members)])
}

// ResolveWith resolves d against an explicit receiver and second operand
// (used to run the very same operation on fresh copies of its operands).
func ResolveWith(w *World, d OpDesc, client int, recv, other *Member) *Exec {
	ex := resolveWith(w, d, client, recv, other)
	ex.D, ex.Other = d, other
	return ex
}

func resolveWith(w *World, d OpDesc, client int, recv, other *Member) *Exec {
	switch recv.Kind {
	case KGrouper:
		return resolveGrouper(w, d, recv, client)
	case KView:
		v := recv.V
		return &Exec{Kind: "view-items", Desc: fmt.Sprintf("m%d.view.items", recv.ID), Recv: recv, Run: func() *Outcome {
			return &Outcome{Canon: strings.Join(viewObs(v), ",")}
		}}
	}
	return resolveFrame(w, d, recv, other, client)
}

// SkipObservation makes operations hand back their result without looking at
// it (cold build phase of the race engine: the harness must not be the first
// to read a value's cells or error text).
var SkipObservation bool

func frameOutcome(f qframe.QFrame, origin string, client int, unordered bool) *Outcome {
	if SkipObservation {
		return &Outcome{Canon: "unobserved", New: []*Member{{Kind: KFrame, F: f, Origin: origin, Owner: client}}}
	}
	var o *obs.Frame
	Atomic(func() { o = obs.Of(f) })
	out := &Outcome{New: []*Member{{Kind: KFrame, F: f, Origin: origin, Owner: client}}}
	if unordered {
		out.Canon = canonRows(o)
	} else {
		out.Canon = exactFrame(o)
	}
	return out
}

var intConsts = []int{0, 1, -1, 2, 3}
var floatConsts = []float64{0, 1, 1.5, -1, 0.5}
var strConsts = []string{"a", "b", "ab", "A", "", "%a%", "a%", "%b", "a.*", "\x00"}

func colsOfType(m *Member, typs ...string) []string {
	var out []string
	for i, n := range m.Names {
		for _, t := range typs {
			if m.Types[i] == t {
				out = append(out, n)
			}
		}
	}
	return out
}

func typeOf(m *Member, name string) string {
	for i, n := range m.Names {
		if n == name {
			return m.Types[i]
		}
	}
	return ""
}

// leaf builds one filter leaf over column col of the receiver; a fresh value
// (incl. fresh closures) on every call.
func leaf(m *Member, col string, d OpDesc, o int) (qframe.Filter, string) {
	typ := typeOf(m, col)
	p := func(i int) int { return pick(d, o+i) }
	f := qframe.Filter{Column: col}
	desc := ""
	switch typ {
	case "int":
		ops := []string{">", ">=", "<", "<=", "=", "!=", "in", "any_bits", "all_bits", "fn", "col", "isnull", "isnotnull", "fn2"}
		op := ops[p(0)%len(ops)]
		c := intConsts[p(1)%len(intConsts)]
		switch op {
		case "in":
			f.Comparator, f.Arg = "in", []int{c, c + 1}
			if p(5)%3 == 0 {
				f.Arg = []int{c, c, c + 1, c - 7}
			}
		case "fn2":
			// the caller's own function of two cells, the second from another column
			others := colsOfType(m, "int")
			f.Comparator, f.Arg = func(x, y int) bool { return x <= y }, types.ColumnName(others[p(3)%len(others)])
			desc = fmt.Sprintf("%s fn2 %v", col, f.Arg)
		case "fn":
			f.Comparator = func(x int) bool { return x%2 == c%2 }
		case "col":
			others := colsOfType(m, "int", "float")
			f.Comparator, f.Arg = []string{">", "<=", "=", "!="}[p(2)%4], types.ColumnName(others[p(3)%len(others)])
			op, c = f.Comparator.(string)+" column", 0
			desc = fmt.Sprintf("%s %s %v", col, op, f.Arg)
		case "isnull", "isnotnull":
			f.Comparator = op
		default:
			f.Comparator, f.Arg = op, c
		}
		if desc == "" {
			desc = fmt.Sprintf("%s %s %v", col, op, c)
		}
	case "float":
		ops := []string{">", ">=", "<", "<=", "=", "!=", "isnull", "isnotnull", "fn", "col", "fn2"}
		op := ops[p(0)%len(ops)]
		c := floatConsts[p(1)%len(floatConsts)]
		switch op {
		case "isnull", "isnotnull":
			f.Comparator = op
		case "fn2":
			others := colsOfType(m, "float")
			f.Comparator, f.Arg = func(x, y float64) bool { return x <= y }, types.ColumnName(others[p(3)%len(others)])
			op = fmt.Sprintf("fn2 %v", f.Arg)
		case "fn":
			f.Comparator = func(x float64) bool { return x > c }
		case "col":
			others := colsOfType(m, "int", "float")
			f.Comparator, f.Arg = []string{">", "<=", "=", "!="}[p(2)%4], types.ColumnName(others[p(3)%len(others)])
		default:
			f.Comparator, f.Arg = op, c
		}
		desc = fmt.Sprintf("%s %s %v", col, op, c)
	case "bool":
		ops := []string{"=", "!=", "fn", "col"}
		op := ops[p(0)%len(ops)]
		c := p(1)%2 == 0
		switch op {
		case "fn":
			f.Comparator = func(x bool) bool { return x != c }
		case "col":
			others := colsOfType(m, "bool")
			f.Comparator, f.Arg = []string{"=", "!="}[p(2)%2], types.ColumnName(others[p(3)%len(others)])
		default:
			f.Comparator, f.Arg = op, c
		}
		desc = fmt.Sprintf("%s %s %v", col, op, c)
	case "string", "enum":
		ops := []string{"<", ">", "=", "!=", "like", "ilike", "ilike", "in", "isnull", "isnotnull", "fn", "col", "fn2"}
		op := ops[p(0)%len(ops)]
		c := strConsts[p(1)%len(strConsts)]
		switch op {
		case "in":
			f.Comparator, f.Arg = "in", []string{c, "b"}
			if p(5)%3 == 0 {
				f.Arg = []string{c, c, "b", "d"}
			}
		case "isnull", "isnotnull":
			f.Comparator = op
		case "fn2":
			others := colsOfType(m, typ)
			f.Comparator, f.Arg = func(x, y *string) bool { return x != nil && y != nil && len(*x) <= len(*y) }, types.ColumnName(others[p(3)%len(others)])
			op = fmt.Sprintf("fn2 %v", f.Arg)
		case "fn":
			f.Comparator = func(x *string) bool { return x != nil && len(*x) > len(c)%2 }
		case "col":
			others := colsOfType(m, typ)
			f.Comparator, f.Arg = []string{">", "<=", "=", "!="}[p(2)%4], types.ColumnName(others[p(3)%len(others)])
		default:
			f.Comparator, f.Arg = op, c
		}
		desc = fmt.Sprintf("%s %s %q", col, op, c)
	default:
		f.Comparator, f.Arg = "=", 0
		desc = col + " = 0"
	}
	if p(4)%7 == 0 {
		f.Inverse = true
		desc = "!(" + desc + ")"
	}
	return f, desc
}

// clause builds a clause tree; shape drawn from d.
func clause(m *Member, d OpDesc, o, depth int) (qframe.FilterClause, string) {
	p := func(i int) int { return pick(d, o+i) }
	if len(m.Names) == 0 {
		return qframe.Null(), "null"
	}
	col := func(i int) string { return m.Names[p(i)%len(m.Names)] }
	shape := p(0) % 12
	if depth >= 2 && shape >= 3 {
		shape = 0
	}
	switch shape {
	case 3:
		a, da := clause(m, d, o+1, depth+1)
		b, db := clause(m, d, o+5, depth+1)
		return qframe.Or(a, b), "or(" + da + "," + db + ")"
	case 4:
		a, da := clause(m, d, o+2, depth+1)
		b, db := clause(m, d, o+6, depth+1)
		return qframe.And(a, b), "and(" + da + "," + db + ")"
	case 5:
		a, da := clause(m, d, o+3, depth+1)
		return qframe.Not(a), "not(" + da + ")"
	case 6:
		// consecutive plain leaves inside Or share one boolean mask
		a, da := leaf(m, col(1), d, o+2)
		b, db := leaf(m, col(3), d, o+4)
		c, dc := leaf(m, col(5), d, o+6)
		return qframe.Or(a, b, c), "or(" + da + "," + db + "," + dc + ")"
	case 7:
		a, da := leaf(m, col(1), d, o+2)
		b, db := leaf(m, col(3), d, o+4)
		return qframe.And(a, qframe.Null(), b), "and(" + da + ",null," + db + ")"
	case 11:
		// plain leaves on both sides of a nested clause
		a, da := leaf(m, col(1), d, o+2)
		b, db := leaf(m, col(3), d, o+4)
		c, dc := leaf(m, col(5), d, o+6)
		e, de := leaf(m, col(7), d, o+8)
		return qframe.Or(a, qframe.And(b, c), e), "or(" + da + ",and(" + db + "," + dc + ")," + de + ")"
	case 8:
		a, da := leaf(m, col(1), d, o+2)
		return qframe.Or(qframe.Null(), a), "or(null," + da + ")"
	case 9:
		a, da := leaf(m, col(1), d, o+2)
		return qframe.Or(a, qframe.Null()), "or(" + da + ",null)"
	case 10:
		return qframe.Not(qframe.Null()), "not(null)"
	default:
		a, da := leaf(m, col(1), d, o+2)
		return a, da
	}
}

// withRepeat names one of the columns twice (not last), one time in four.
func withRepeat(cols []string, d OpDesc, o int) []string {
	if pick(d, o+2)%2 == 0 {
		// without the unique id column: groups of more than one row
		var kept []string
		for _, c := range cols {
			if c != "__id" {
				kept = append(kept, c)
			}
		}
		cols = kept
	}
	if len(cols) == 0 || pick(d, o)%4 != 0 {
		return cols
	}
	k := pick(d, o+1) % len(cols)
	return append(append(append([]string{}, cols[:k+1]...), cols[k]), cols[k+1:]...)
}

func subset(names []string, d OpDesc, o int) []string {
	var out []string
	mask := pick(d, o) | pick(d, o+1)<<8
	for i, n := range names {
		if mask>>(uint(i)%16)&1 == 1 {
			out = append(out, n)
		}
	}
	if pick(d, o+2)%2 == 1 {
		for i, j := 0, len(out)-1; i < j; i, j = i+1, j-1 {
			out[i], out[j] = out[j], out[i]
		}
	}
	return out
}

// userCtx returns the shared, pre-populated evaluation context (read-only use).
func (w *World) UserCtx() *eval.Context {
	if w.userCtx == nil {
		ctx := eval.NewDefaultCtx()
		_ = ctx.SetFunc("twice", func(x int) int { return 2 * x })
		_ = ctx.SetFunc("halve", func(x float64) float64 { return x / 2 })
		_ = ctx.SetFunc("bang", func(s *string) *string {
			if s == nil {
				return nil
			}
			r := *s + "!"
			return &r
		})
		w.userCtx = ctx
	}
	return w.userCtx.(*eval.Context)
}

func resolveFrame(w *World, d OpDesc, recv, other *Member, client int) *Exec {
	f := recv.F
	p := func(i int) int { return pick(d, i) }
	id := fmt.Sprintf("m%d", recv.ID)
	kind := frameOps[d.Kind%len(frameOps)]
	// a frame in error state is a value like any other and every operation
	// accepts it: the arguments are built as if it had the first base frame's columns
	shape := recv
	if f.Err != nil && len(w.Members) > 0 && len(w.Members[0].Names) > 0 {
		sh := *recv
		sh.Names, sh.Types = w.Members[0].Names, w.Members[0].Types
		shape = &sh
	}
	names := shape.Names
	if len(names) == 0 && kind != "misc" && kind != "string" && kind != "tocsv" && kind != "tojson" && kind != "equals" && kind != "tojson-fault" && kind != "tocsv-fault" {
		kind = "misc"
	}
	anyCol := func(i int) string { return names[p(i)%len(names)] }
	ex := &Exec{Recv: recv, Kind: kind}
	switch kind {
	case "filter":
		// the clause is a value the caller owns: it is built once per world and
		// description, used by every execution of this operation (also by
		// other clients that run the same one) and must come back unchanged
		_, desc := clause(shape, d, 0, 0)
		ex.Desc = id + ".Filter(" + desc + ")"
		key := fmt.Sprint(recv.ID, d.Kind, d.N) // the whole descriptor: the text leaves details out
		if w.clauses == nil {
			w.clauses = map[string]qframe.FilterClause{}
		}
		c, ok := w.clauses[key]
		if !ok {
			c, _ = clause(shape, d, 0, 0)
			w.clauses[key] = c
		}
		before := c.String()
		ex.Debug = fmt.Sprintf("%+v", c)
		ex.Run = func() *Outcome {
			out := frameOutcome(f.Filter(c), ex.Desc, client, false)
			if after := c.String(); after != before {
				out.ArgChanged = "the filter clause passed to Filter changed from " + before + " to " + after
			}
			return out
		}
	case "sort":
		var orders []qframe.Order
		nk := 1 + p(0)%2
		for k := 0; k < nk; k++ {
			orders = append(orders, qframe.Order{Column: anyCol(1 + k), Reverse: p(3+k)%2 == 1, NullLast: p(5+k)%2 == 1})
		}
		ex.Desc = fmt.Sprintf("%s.Sort(%+v)", id, orders)
		ex.Run = func() *Outcome {
			res := f.Sort(orders...)
			out := frameOutcome(res, ex.Desc, client, true)
			// rows that are equal on all keys may appear in any order: the
			// result is the sequence of key tuples plus the multiset of rows
			var o *obs.Frame
			Atomic(func() { o = obs.Of(res) })
			if !o.HasErr && o.Bad == "" {
				var sb strings.Builder
				for r := 0; r < o.Len; r++ {
					for _, ord := range orders {
						if col := o.Col(ord.Column); col != nil {
							sb.WriteString(normKey(col[r]))
							sb.WriteByte('|')
						}
					}
					sb.WriteByte('\n')
				}
				out.Canon = "keys:" + sb.String() + "rows:" + out.Canon
			}
			return out
		}
	case "slice":
		a, b := 0, recv.Len
		if recv.Len > 0 {
			a = p(0) % (recv.Len + 1)
			b = a + p(1)%(recv.Len-a+1)
		}
		if recv.Len > 255 {
			// large frames: bounds anywhere, not only within the first 255 rows
			a = p(0) * (recv.Len + 1) / 256
			if p(3)%3 == 0 {
				a = 0
			}
			b = a + p(1)*(recv.Len-a+1)/256
		}
		if p(2)%17 == 0 {
			b = recv.Len + 1 // out of range: an error is a result too
		}
		ex.Desc = fmt.Sprintf("%s.Slice(%d,%d)", id, a, b)
		ex.Run = func() *Outcome { return frameOutcome(f.Slice(a, b), ex.Desc, client, false) }
	case "select":
		cols := subset(names, d, 0)
		ex.Desc = fmt.Sprintf("%s.Select(%q)", id, cols)
		ex.Run = func() *Outcome {
			passed, check := guarded(cols)
			out := frameOutcome(f.Select(passed...), ex.Desc, client, false)
			out.ArgChanged = check()
			return out
		}
	case "drop":
		cols := subset(names, d, 1)
		if len(cols) == len(names) && len(cols) > 0 {
			cols = cols[1:]
		}
		if len(cols) > 0 && p(5)%3 == 0 {
			// a name given twice, next to itself (dropping is idempotent)
			k := p(6) % len(cols)
			cols = append(append(append([]string{}, cols[:k+1]...), cols[k]), cols[k+1:]...)
		}
		ex.Desc = fmt.Sprintf("%s.Drop(%q)", id, cols)
		ex.Run = func() *Outcome {
			passed, check := guarded(cols)
			out := frameOutcome(f.Drop(passed...), ex.Desc, client, false)
			out.ArgChanged = check()
			return out
		}
	case "copy":
		src := anyCol(0)
		dst := []string{"cp", "cp2", anyCol(1)}[p(2)%3]
		ex.Desc = fmt.Sprintf("%s.Copy(%q,%q)", id, dst, src)
		ex.Run = func() *Outcome { return frameOutcome(f.Copy(dst, src), ex.Desc, client, false) }
	case "apply", "filteredapply":
		src := anyCol(0)
		typ := typeOf(shape, src)
		dst := []string{"ap", "ap2", src, anyCol(1)}[p(2)%4]
		variant := p(3) % 6
		mk := func() []qframe.Instruction {
			var ins qframe.Instruction
			switch variant {
			case 0: // constant
				consts := []interface{}{7, 2.5, true, "k", strPtr("kp")}
				ins = qframe.Instruction{Fn: consts[p(4)%len(consts)], DstCol: dst}
			case 1: // zero-arg function with state
				n := 0
				ins = qframe.Instruction{Fn: func() int { n++; return n }, DstCol: dst}
			case 2: // column copy
				ins = qframe.Instruction{Fn: types.ColumnName(src), DstCol: dst}
			case 3, 4: // one-arg
				switch typ {
				case "int":
					fns := []interface{}{func(x int) int { return x + 1 }, func(x int) float64 { return float64(x) / 2 }, func(x int) bool { return x > 0 }, func(x int) *string { s := fmt.Sprint(x); return &s }}
					ins = qframe.Instruction{Fn: fns[p(4)%len(fns)], DstCol: dst, SrcCol1: src}
				case "float":
					fns := []interface{}{func(x float64) float64 { return x * 2 }, func(x float64) int { return int(math.Min(math.Max(x, -1e6), 1e6)) }, func(x float64) bool { return x > 0 }}
					ins = qframe.Instruction{Fn: fns[p(4)%len(fns)], DstCol: dst, SrcCol1: src}
				case "bool":
					fns := []interface{}{func(x bool) bool { return !x }, func(x bool) int {
						if x {
							return 1
						}
						return 0
					}}
					ins = qframe.Instruction{Fn: fns[p(4)%len(fns)], DstCol: dst, SrcCol1: src}
				default:
					fns := []interface{}{func(x *string) *string {
						if x == nil {
							return nil
						}
						s := *x + "!"
						return &s
					}, func(x *string) int {
						if x == nil {
							return -1
						}
						return len(*x)
					}, "ToUpper", func(x *string) bool { return x == nil }}
					ins = qframe.Instruction{Fn: fns[p(4)%len(fns)], DstCol: dst, SrcCol1: src}
				}
			default: // two-arg, same type
				others := colsOfType(shape, typ)
				src2 := others[p(5)%len(others)]
				switch typ {
				case "int":
					ins = qframe.Instruction{Fn: func(x, y int) int { return x + y }, DstCol: dst, SrcCol1: src, SrcCol2: src2}
				case "float":
					ins = qframe.Instruction{Fn: func(x, y float64) float64 { return x - y }, DstCol: dst, SrcCol1: src, SrcCol2: src2}
				case "bool":
					ins = qframe.Instruction{Fn: func(x, y bool) bool { return x && y }, DstCol: dst, SrcCol1: src, SrcCol2: src2}
				default:
					ins = qframe.Instruction{Fn: func(x, y *string) *string {
						if x == nil {
							return y
						}
						if y == nil {
							return x
						}
						s := *x + *y
						return &s
					}, DstCol: dst, SrcCol1: src, SrcCol2: src2}
				}
			}
			switch p(6) % 4 {
			case 0:
				// a second instruction reading what the first wrote
				return []qframe.Instruction{ins, {Fn: types.ColumnName(dst), DstCol: "ap3"}}
			case 1:
				// copy a column, then rewrite the copy in the same call (the
				// copy shares storage with its source)
				var fn interface{}
				switch typ {
				case "int":
					fn = func(x int) int { return x + 1000 }
				case "float":
					fn = func(x float64) float64 { return x + 0.5 }
				case "bool":
					fn = func(x bool) bool { return !x }
				default:
					fn = func(x *string) *string {
						s := "<>"
						if x != nil {
							s = "<" + *x + ">"
						}
						return &s
					}
				}
				return []qframe.Instruction{{Fn: types.ColumnName(src), DstCol: "tmp"}, {Fn: fn, DstCol: "tmp", SrcCol1: "tmp"}, ins}
			case 2:
				// a no-op self copy first
				return []qframe.Instruction{{Fn: types.ColumnName(src), DstCol: src}, ins}
			}
			return []qframe.Instruction{ins}
		}
		if kind == "apply" {
			ex.Desc = fmt.Sprintf("%s.Apply(variant %d, %q<-%q)", id, variant, dst, src)
			ex.Run = func() *Outcome { return frameOutcome(f.Apply(mk()...), ex.Desc, client, false) }
		} else {
			_, cdesc := clause(shape, d, 3, 1)
			ex.Desc = fmt.Sprintf("%s.FilteredApply(%s; variant %d, %q<-%q)", id, cdesc, variant, dst, src)
			ex.Run = func() *Outcome {
				c, _ := clause(shape, d, 3, 1)
				return frameOutcome(f.FilteredApply(c, mk()...), ex.Desc, client, false)
			}
		}
	case "eval":
		src := anyCol(0)
		typ := typeOf(shape, src)
		dst := []string{"ev", src, "ev2"}[p(1)%3]
		variant := p(2) % 5
		useCtx := p(3)%3 == 0
		// customName: refer to a function that only the user context defines.
		// With the default context this must stay an error, whatever other
		// callers registered on contexts of their own.
		customName := useCtx || p(3)%5 == 1
		mk := func() qframe.Expression {
			c := types.ColumnName(src)
			switch typ {
			case "int":
				others := colsOfType(shape, "int")
				c2 := types.ColumnName(others[p(4)%len(others)])
				switch variant {
				case 0:
					return qframe.Expr("+", c, 1)
				case 1:
					return qframe.Expr("abs", c)
				case 2:
					return qframe.Expr("*", qframe.Expr("+", c, 1), c2)
				case 3:
					if customName {
						return qframe.Expr("twice", c)
					}
					return qframe.Expr("-", c, c2, 2)
				default:
					return qframe.Expr("str", qframe.Expr("+", c, c2))
				}
			case "float":
				switch variant {
				case 0:
					return qframe.Expr("+", c, 1.5)
				case 1:
					return qframe.Expr("abs", c)
				case 2:
					if customName {
						return qframe.Expr("halve", c)
					}
					return qframe.Expr("*", c, c)
				default:
					return qframe.Expr("/", qframe.Expr("-", c, 1.0), 2.0)
				}
			case "bool":
				others := colsOfType(shape, "bool")
				c2 := types.ColumnName(others[p(4)%len(others)])
				switch variant {
				case 0:
					return qframe.Expr("!", c)
				case 1:
					return qframe.Expr("&", c, c2)
				default:
					return qframe.Expr("|", qframe.Expr("!", c), c2)
				}
			default:
				switch variant {
				case 0:
					return qframe.Expr("+", c, qframe.Val("x"))
				case 1:
					return qframe.Expr("upper", c)
				case 2:
					if customName {
						return qframe.Expr("bang", c)
					}
					return qframe.Expr("len", c)
				default:
					return qframe.Expr("+", qframe.Expr("lower", c), c)
				}
			}
		}
		ex.Desc = fmt.Sprintf("%s.Eval(%q, %s variant %d on %q, userctx=%v, customfn=%v)", id, dst, typ, variant, src, useCtx, customName)
		ex.Run = func() *Outcome {
			if useCtx {
				return frameOutcome(f.Eval(dst, mk(), eval.EvalContext(w.UserCtx())), ex.Desc, client, false)
			}
			return frameOutcome(f.Eval(dst, mk()), ex.Desc, client, false)
		}
	case "rownums":
		dst := []string{"rn", anyCol(0)}[p(1)%2]
		ex.Desc = fmt.Sprintf("%s.WithRowNums(%q)", id, dst)
		ex.Run = func() *Outcome { return frameOutcome(f.WithRowNums(dst), ex.Desc, client, false) }
	case "distinct":
		cols := withRepeat(subset(names, d, 0), d, 5)
		null := p(3)%2 == 0
		ex.Desc = fmt.Sprintf("%s.Distinct(%q, null=%v)", id, cols, null)
		ex.Mutual = true
		ex.Run = func() *Outcome {
			passed, check := guarded(cols)
			res := f.Distinct(gbOpts(passed, null, p(7))...)
			out := frameOutcome(res, ex.Desc, client, true)
			// which representative is kept is unspecified: compare the key classes only
			o := obs.Of(res)
			if !o.HasErr && o.Bad == "" {
				keyCols := cols
				if len(keyCols) == 0 {
					keyCols = o.Names
				}
				var keys []string
				for r := 0; r < o.Len; r++ {
					k := ""
					for _, c := range keyCols {
						if col := o.Col(c); col != nil {
							k += normKey(col[r]) + "|"
						}
					}
					keys = append(keys, k)
				}
				sort.Strings(keys)
				out.Canon = fmt.Sprintf("%q|%d|", o.Names, o.Len) + strings.Join(keys, "\n")
			}
			out.ArgChanged = check()
			return out
		}
	case "groupby":
		cols := withRepeat(subset(names, d, 0), d, 5)
		if p(4)%4 == 0 {
			cols = nil
		}
		null := p(3)%2 == 0
		ex.Desc = fmt.Sprintf("%s.GroupBy(%q, null=%v)", id, cols, null)
		ex.Mutual = true
		ex.Run = func() *Outcome {
			passed, check := guarded(cols)
			g := f.GroupBy(gbOpts(passed, null, p(7))...)
			return &Outcome{Canon: canonGrouper(g), New: []*Member{{Kind: KGrouper, G: g, Origin: ex.Desc, Owner: client, Keys: cols, ArgCheck: check}}, ArgChanged: check()}
		}
	case "aggregate-direct":
		cols := withRepeat(subset(names, d, 0), d, 5)
		null := p(3)%2 == 0
		ex.Desc = fmt.Sprintf("%s.GroupBy(%q, null=%v).Aggregate(...)", id, cols, null)
		ex.Mutual = true
		ex.Run = func() *Outcome {
			passed, check := guarded(cols)
			g := f.GroupBy(gbOpts(passed, null, p(7))...)
			res := g.Aggregate(aggsFor(shape.Names, shape.Types, cols, d)...)
			out := frameOutcome(res, ex.Desc, client, true)
			out.ArgChanged = check()
			return out
		}
	case "tocsv":
		header := p(0)%4 != 0
		var cols []string
		if p(1)%2 == 0 && len(names) > 1 {
			// the Columns option: a rotation of the frame's own order
			k := 1 + p(2)%(len(names)-1)
			cols = append(append([]string{}, names[k:]...), names[:k]...)
		}
		ex.Desc = fmt.Sprintf("%s.ToCSV(header=%v, columns=%q)", id, header, cols)
		ex.Run = func() *Outcome {
			var buf bytes.Buffer
			opts := []csv.ToConfigFunc{csv.Header(header)}
			if cols != nil {
				opts = append(opts, csv.Columns(append([]string{}, cols...)))
			}
			err := f.ToCSV(&buf, opts...)
			return &Outcome{Canon: fmt.Sprintf("%v|%q", err, buf.String())}
		}
	case "tojson":
		ex.Desc = id + ".ToJSON"
		ex.Run = func() *Outcome {
			var buf bytes.Buffer
			err := f.ToJSON(&buf)
			return &Outcome{Canon: fmt.Sprintf("%v|%q", err, buf.String())}
		}
	case "bad-filter":
		// misuse that yields a frame in error state (a value like any other:
		// it must stay what it is, and reading its Err from several callers at
		// once must be safe)
		col := anyCol(0)
		ex.Desc = fmt.Sprintf("%s.Filter(%q with an argument of the wrong type)", id, col)
		ex.Run = func() *Outcome {
			return frameOutcome(f.Filter(qframe.Filter{Column: col, Comparator: ">", Arg: struct{}{}}), ex.Desc, client, false)
		}
	case "renew":
		// build a new frame from what the views of this one hand out
		ex.Desc = id + ".{views -> New}"
		ex.Run = func() *Outcome {
			m := &Member{Kind: KFrame, F: f}
			var cp *Member
			var ok bool
			Atomic(func() { m.snapshot() })
			cp, ok = m.FreshCopy()
			if !ok {
				return &Outcome{Canon: "not rebuilt"}
			}
			return frameOutcome(cp.F, ex.Desc, client, false)
		}
	case "tojson-fault", "tocsv-fault":
		// a serialisation that fails part-way (the writer accepts `at` bytes):
		// error paths are where per-call state is most easily left behind
		at := p(0)*3 + p(1)%3
		ex.Desc = fmt.Sprintf("%s.%s(writer fails at byte %d)", id, kind, at)
		ex.Run = func() *Outcome {
			w := &limitedWriter{room: at}
			var err error
			if kind == "tojson-fault" {
				err = f.ToJSON(w)
			} else {
				err = f.ToCSV(w)
			}
			return &Outcome{Canon: fmt.Sprintf("err=%v|%q", err != nil, w.buf)}
		}
	case "string":
		ex.Desc = id + ".String"
		ex.Run = func() *Outcome { return &Outcome{Canon: f.String()} }
	case "equals":
		if other == nil || other.Kind != KFrame {
			other = recv
		}
		of := other.F
		ex.Desc = fmt.Sprintf("%s.Equals(m%d)", id, other.ID)
		ex.Run = func() *Outcome {
			eq, reason := f.Equals(of)
			return &Outcome{Canon: fmt.Sprintf("%v|%s", eq, reason)}
		}
	case "view":
		col := anyCol(0)
		typ := typeOf(shape, col)
		ex.Desc = fmt.Sprintf("%s.%sView(%q)", id, typ, col)
		ex.Run = func() *Outcome {
			v := makeView(f, col, typ)
			if v == nil {
				return &Outcome{Canon: "no view"}
			}
			return &Outcome{Canon: strings.Join(viewObs(v), ","), New: []*Member{{Kind: KView, V: v, Origin: ex.Desc, Owner: client}}}
		}
	default: // misc observers
		ex.Desc = id + ".{Len,ColumnNames,ColumnTypes,ColumnTypeMap,ByteSize,Contains}"
		ex.Run = func() *Outcome {
			tm := f.ColumnTypeMap()
			keys := make([]string, 0, len(tm))
			for k, v := range tm {
				keys = append(keys, k+":"+string(v))
			}
			sort.Strings(keys)
			// what the accessors return is the caller's: it is overwritten and extended
			ns, ts := f.ColumnNames(), f.ColumnTypes()
			for i := range ns {
				ns[i] = scribble
			}
			for i := range ts {
				ts[i] = "scribbled"
			}
			_, _ = append(ns, scribble), append(ts, "scribbled")
			for k := range tm {
				tm[k] = "scribbled"
			}
			tm[scribble] = "scribbled"
			// ByteSize walks a Go map and calls per-column loops from inside it:
			// the order in which its scheduling points are passed would depend on
			// Go's map iteration order (N6), so it runs without scheduling points.
			var bs int
			Atomic(func() { bs = f.ByteSize() })
			return &Outcome{Canon: fmt.Sprint(f.Len(), f.ColumnNames(), f.ColumnTypes(), keys, bs > 0, f.Contains("__id"))}
		}
	}
	return ex
}

// limitedWriter accepts room bytes, then fails for good.
type limitedWriter struct {
	room int
	buf  []byte
}

var errWriterFull = fmt.Errorf("fam: writer full")

func (w *limitedWriter) Write(p []byte) (int, error) {
	if len(p) <= w.room {
		w.room -= len(p)
		w.buf = append(w.buf, p...)
		return len(p), nil
	}
	n := w.room
	w.buf = append(w.buf, p[:n]...)
	w.room = 0
	return n, errWriterFull
}

// normKey maps cells that compare equal as keys (0 and -0, all NaNs) to one text.
func normKey(cell string) string {
	if strings.HasPrefix(cell, "f:") {
		if cell == "f:8000000000000000" {
			return "f:0"
		}
		if bits, err := strconv.ParseUint(cell[2:], 16, 64); err == nil && bits&0x7ff0000000000000 == 0x7ff0000000000000 && bits&0x000fffffffffffff != 0 {
			return "f:NaN"
		}
	}
	return cell
}

// sharedStrJoin is one function value of the library's StrJoin, kept in a
// package variable and handed to every Aggregate of every client, the way a
// program would: whatever the returned function holds on to is shared.
var sharedStrJoin = aggregation.StrJoin(",")

var scribble = "\x00scribbled"

func makeView(f qframe.QFrame, col, typ string) *View {
	switch typ {
	case "int":
		v, err := f.IntView(col)
		if err != nil {
			return nil
		}
		return &View{Typ: typ, Len: v.Len, Item: func(i int) string { return fmt.Sprint(v.ItemAt(i)) }, Slice: func() []string {
			var out []string
			sl := v.Slice()
			for _, x := range sl {
				out = append(out, fmt.Sprint(x))
			}
			// the slice is the caller's ("a copy of the column data"): the
			// caller overwrites and extends it
			for i := range sl {
				sl[i] = ^sl[i]
			}
			_ = append(sl, 1, 2, 3)
			return out
		}}
	case "float":
		v, err := f.FloatView(col)
		if err != nil {
			return nil
		}
		return &View{Typ: typ, Len: v.Len, Item: func(i int) string { return obs.FloatText(v.ItemAt(i)) }, Slice: func() []string {
			var out []string
			sl := v.Slice()
			for _, x := range sl {
				out = append(out, obs.FloatText(x))
			}
			for i := range sl {
				sl[i] = -1 - sl[i]
			}
			_ = append(sl, 1, 2, 3)
			return out
		}}
	case "bool":
		v, err := f.BoolView(col)
		if err != nil {
			return nil
		}
		return &View{Typ: typ, Len: v.Len, Item: func(i int) string { return fmt.Sprint(v.ItemAt(i)) }, Slice: func() []string {
			var out []string
			sl := v.Slice()
			for _, x := range sl {
				out = append(out, fmt.Sprint(x))
			}
			for i := range sl {
				sl[i] = !sl[i]
			}
			_ = append(sl, true, false)
			return out
		}}
	case "string":
		v, err := f.StringView(col)
		if err != nil {
			return nil
		}
		return &View{Typ: typ, Len: v.Len, Item: func(i int) string { return obs.StrText(v.ItemAt(i)) }, Slice: func() []string {
			var out []string
			sl := v.Slice()
			for _, x := range sl {
				out = append(out, obs.StrText(x))
			}
			for i := range sl {
				sl[i] = &scribble
			}
			_ = append(sl, &scribble)
			return out
		}, Retained: func() []string {
			ptrs := make([]*string, 0, v.Len())
			for i := 0; i < v.Len(); i++ {
				ptrs = append(ptrs, v.ItemAt(i))
			}
			var out []string
			for _, p := range ptrs {
				out = append(out, obs.StrText(p))
			}
			return out
		}}
	case "enum":
		v, err := f.EnumView(col)
		if err != nil {
			return nil
		}
		return &View{Typ: typ, Len: v.Len, Item: func(i int) string { return obs.StrText(v.ItemAt(i)) }, Slice: func() []string {
			var out []string
			sl := v.Slice()
			for _, x := range sl {
				out = append(out, obs.StrText(x))
			}
			for i := range sl {
				sl[i] = &scribble
			}
			_ = append(sl, &scribble)
			return out
		}}
	}
	return nil
}

// canonGrouper: the set of groups, each as the ordered rows of its frame.
func canonGrouper(g qframe.Grouper) string {
	if g.Err != nil {
		return "Err:" + g.Err.Error()
	}
	frames, err := g.QFrames()
	if err != nil {
		return "Err:" + err.Error()
	}
	groups := make([]string, len(frames))
	for i, f := range frames {
		groups[i] = exactFrame(obs.Of(f))
	}
	sort.Strings(groups)
	return strings.Join(groups, "\x1e")
}

// aggsFor builds an aggregation list over the non-key columns (fresh closures).
func aggsFor(names, typs, keys []string, d OpDesc) []qframe.Aggregation {
	isKey := map[string]bool{}
	for _, k := range keys {
		isKey[k] = true
	}
	var aggs []qframe.Aggregation
	n := 0
	for i, name := range names {
		if isKey[name] {
			continue
		}
		as := fmt.Sprintf("g%d", n)
		n++
		v := pick(d, 5+i) % 4
		switch typs[i] {
		case "int":
			fns := []interface{}{"sum", "max", "count",
				// a median that sorts its argument in place: legal for a user
				// function, fatal if it is handed live column storage
				func(xs []int) int {
					if len(xs) == 0 {
						return 0
					}
					sort.Ints(xs)
					return xs[len(xs)/2]
				}}
			aggs = append(aggs, qframe.Aggregation{Fn: fns[v], Column: name, As: as})
		case "float":
			fns := []interface{}{"sum", "min", "avg",
				func(xs []float64) float64 {
					if len(xs) == 0 {
						return 0
					}
					sort.Float64s(xs)
					return xs[len(xs)/2]
				}}
			aggs = append(aggs, qframe.Aggregation{Fn: fns[v], Column: name, As: as})
		case "bool":
			fns := []interface{}{"majority", "count", func(xs []bool) bool {
				for i := range xs {
					xs[i] = !xs[i]
				}
				return len(xs) > 0 && xs[0]
			}, "majority"}
			aggs = append(aggs, qframe.Aggregation{Fn: fns[v], Column: name, As: as})
		case "string", "enum":
			fns := []interface{}{"count", func(xs []*string) *string {
				parts := []string{}
				for _, x := range xs {
					if x != nil {
						parts = append(parts, *x)
					}
				}
				s := strings.Join(parts, "+")
				return &s
			}, sharedStrJoin, "count"}
			aggs = append(aggs, qframe.Aggregation{Fn: fns[v], Column: name, As: as})
		}
	}
	return aggs
}

func resolveGrouper(w *World, d OpDesc, recv *Member, client int) *Exec {
	g := recv.G
	id := fmt.Sprintf("m%d", recv.ID)
	ex := &Exec{Recv: recv, Mutual: true, Kind: "grouper-aggregate"}
	if d.Kind%3 == 0 {
		ex.Kind = "grouper-qframes"
		ex.Desc = id + ".QFrames()"
		ex.Run = func() *Outcome {
			frames, err := g.QFrames()
			if err != nil {
				return &Outcome{Canon: "Err:" + err.Error()}
			}
			out := &Outcome{}
			var parts []string
			for i, f := range frames {
				parts = append(parts, exactFrame(obs.Of(f)))
				if i < 3 {
					out.New = append(out.New, &Member{Kind: KFrame, F: f, Origin: fmt.Sprintf("%s[%d]", ex.Desc, i), Owner: client})
				}
			}
			// the order of one Grouper value's groups is what it is: compared exactly
			out.Canon = strings.Join(parts, "\x1e")
			return out
		}
		return ex
	}
	// schema of the grouped frame: take it from the first group frame or the origin
	ex.Desc = id + ".Aggregate(...)"
	ex.Run = func() *Outcome {
		frames, err := g.QFrames()
		if err != nil || len(frames) == 0 {
			res := g.Aggregate()
			return frameOutcome(res, ex.Desc, client, true)
		}
		o := obs.Of(frames[0])
		keys := recv.Keys
		res := g.Aggregate(aggsFor(o.Names, o.Types, keys, d)...)
		out := frameOutcome(res, ex.Desc, client, true)
		if recv.ArgCheck != nil {
			out.ArgChanged = recv.ArgCheck()
		}
		return out
	}
	return ex
}

var _ = filter.Gt
