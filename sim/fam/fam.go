// Package fam is the simulated world of C01 and C11: a growing family of
// values (frames, groupers, typed views) that share column and index storage,
// programs of operations drawn over it, and the oracles I1 (every member stays
// what it was when it was created) and I2 (an operation returns what it
// returns when run alone).
package fam

import (
	"fmt"
	"sort"
	"strconv"
	"strings"

	"github.com/tobgu/qframe"
	"github.com/tobgu/qframe/config/newqf"
	"pgregory.net/rapid"

	"verifsim/sim/core"
	"verifsim/sim/gen"
	"verifsim/sim/obs"
)

// Atomic wraps harness code (observation, snapshots) that must not contain
// scheduling points; the family engine points it at its scheduler.
var Atomic = func(f func()) { f() }

type Kind int

const (
	KFrame Kind = iota
	KGrouper
	KView
)

// View is a typed view reduced to what can be observed through it.
type View struct {
	Typ   string
	Len   func() int
	Item  func(i int) string
	Slice func() []string
	// Retained (views that hand out pointers): every item fetched first, read afterwards.
	Retained func() []string
}

// Member is one value of the family.
type Member struct {
	ID     int
	Kind   Kind
	F      qframe.QFrame
	G      qframe.Grouper
	V      *View
	Origin string
	Owner  int      // client that created it (-1: built before the clients started)
	Keys   []string // grouping columns of a grouper member
	// Cold: registered without a snapshot (no I1 for this member).
	Cold bool
	// ArgCheck re-checks the column list the grouper was built from ("" = untouched).
	ArgCheck func() string
	// snapshot taken at creation
	Dig  uint64
	Snap interface{}
	// schema of a frame member (from the snapshot)
	Names []string
	Types []string
	Len   int
}

// observeGrouper: the observations of QFrames() plus Err.
func observeGrouper(g qframe.Grouper) (uint64, []*obs.Frame, string) {
	if g.Err != nil {
		return 0xe44, nil, g.Err.Error()
	}
	frames, err := g.QFrames()
	if err != nil {
		return 0xe45, nil, err.Error()
	}
	h := uint64(len(frames))*0x9e3779b97f4a7c15 + 7
	for _, f := range frames {
		h = h*0x100000001b3 ^ obs.Digest(f)
	}
	return h, nil, ""
}

func grouperObs(g qframe.Grouper) interface{} {
	if g.Err != nil {
		return "Err: " + g.Err.Error()
	}
	frames, err := g.QFrames()
	if err != nil {
		return "QFrames error: " + err.Error()
	}
	var out []*obs.Frame
	for _, f := range frames {
		out = append(out, obs.Of(f))
	}
	return out
}

func viewObs(v *View) []string {
	n := v.Len()
	out := make([]string, 0, 2*n+1)
	out = append(out, "len="+strconv.Itoa(n))
	for i := 0; i < n; i++ {
		out = append(out, v.Item(i))
	}
	out = append(out, v.Slice()...)
	return out
}

func sliceVsItems(v *View) (why string) {
	defer func() {
		if r := recover(); r != nil {
			why = "" // a panic while observing is the digest's business
		}
	}()
	sl := v.Slice()
	if len(sl) != v.Len() {
		return fmt.Sprintf("Slice() has %d items, Len() is %d", len(sl), v.Len())
	}
	for i, s := range sl {
		if it := v.Item(i); it != s {
			return fmt.Sprintf("Slice()[%d] reads %s, ItemAt(%d) is %s: an earlier result of Slice() that its caller overwrote shows through", i, s, i, it)
		}
	}
	return ""
}

func viewDigest(v *View) uint64 {
	h := uint64(0xcbf29ce484222325)
	for _, s := range viewObs(v) {
		for i := 0; i < len(s); i++ {
			h = (h ^ uint64(s[i])) * 0x100000001b3
		}
		h = (h ^ 0xff) * 0x100000001b3
	}
	return h
}

// Digest re-observes the member.
func (m *Member) Digest() (h uint64) {
	defer func() {
		if r := recover(); r != nil {
			h = 0xbadbadbad
		}
	}()
	switch m.Kind {
	case KFrame:
		return obs.Digest(m.F)
	case KGrouper:
		d, _, _ := observeGrouper(m.G)
		return d
	default:
		return viewDigest(m.V)
	}
}

// Observe returns the full observation (for reports).
func (m *Member) Observe() (o interface{}) {
	defer func() {
		if r := recover(); r != nil {
			o = fmt.Sprintf("panic while observing: %v", r)
		}
	}()
	switch m.Kind {
	case KFrame:
		return obs.Of(m.F)
	case KGrouper:
		return grouperObs(m.G)
	default:
		return viewObs(m.V)
	}
}

func (m *Member) snapshot() {
	m.Snap = m.Observe()
	m.Dig = m.Digest()
	if m.Kind == KFrame {
		fr := m.Snap.(*obs.Frame)
		m.Names, m.Types, m.Len = fr.Names, fr.Types, fr.Len
	}
}

// Changed reports whether the member differs from its snapshot.
func (m *Member) Changed() (bool, string) {
	if m.Kind == KView && m.V.Retained != nil {
		// what ItemAt handed out earlier stays what it was while further items are fetched
		for i, s := range m.V.Retained() {
			if now := m.V.Item(i); s != now {
				return true, fmt.Sprintf("the pointer ItemAt(%d) returned reads %s after the other items were fetched, the item is %s", i, s, now)
			}
		}
	}
	if m.Kind == KView {
		// Slice() is "all items": what an earlier Slice() handed out, and the caller overwrote
		// since (makeView does), must not show through a later one
		if why := sliceVsItems(m.V); why != "" {
			return true, why
		}
	}
	if m.Digest() == m.Dig {
		return false, ""
	}
	now := m.Observe()
	if m.Kind == KFrame {
		if a, ok := m.Snap.(*obs.Frame); ok {
			if b, ok := now.(*obs.Frame); ok {
				return true, obs.Diff(a, b)
			}
		}
	}
	return true, fmt.Sprintf("was %v, is %v", brief(m.Snap), brief(now))
}

func brief(v interface{}) string {
	s := fmt.Sprint(v)
	if frames, ok := v.([]*obs.Frame); ok {
		var parts []string
		for _, f := range frames {
			parts = append(parts, fmt.Sprintf("%+v", *f))
		}
		s = strings.Join(parts, " | ")
	}
	if len(s) > 600 {
		s = s[:600] + "..."
	}
	return s
}

// World is the family plus the caller-owned inputs of New.
type World struct {
	// Huge: the first base frame has a thousand rows or more.
	Huge bool
	// Giant: the first base frame has more than 8192 rows.
	Giant   bool
	Specs   []*gen.FrameSpec
	Members []*Member
	inputs  []inputCopy
	// UserCtx is a shared, pre-populated, read-only evaluation context.
	userCtx interface{}
	// clauses: filter clause values by description, shared by every execution
	// of the same operation in this world.
	clauses map[string]qframe.FilterClause
}

type inputCopy struct {
	spec   *gen.FrameSpec
	ints   map[string][]int
	floats map[string][]uint64
	bools  map[string][]bool
	strs   map[string][]string
}

// Add registers a new member (snapshot taken now).
func (w *World) Add(m *Member) *Member {
	m.ID = len(w.Members)
	m.snapshot()
	w.Members = append(w.Members, m)
	return m
}

func (w *World) AddFrame(f qframe.QFrame, origin string, owner int) *Member {
	return w.Add(&Member{Kind: KFrame, F: f, Origin: origin, Owner: owner})
}

// Bounds of the world.
type Bounds struct {
	MaxRows, MaxCols, MaxMembers int
	// HugeOdds: one base frame in HugeOdds has 1024..1300 rows (0 = never).
	HugeOdds uint64
	// GiantOdds: one world in GiantOdds starts from a frame of 8193..33500 rows (0 = never).
	GiantOdds uint64
	// LongNamesOdds: one world in LongNamesOdds has column names of 35..250 characters (0 = never).
	LongNamesOdds uint64
	// Cold: the base frames are registered without observing them either
	// (AddLight): whoever uses them first is the code under test.
	Cold bool
}

// NewWorld draws the base frames (the slices handed to New stay owned by the
// harness, which keeps private copies to check that New's arguments are left
// alone as well).
func NewWorld(t *rapid.T, b Bounds) *World {
	w := &World{}
	nbase := rapid.IntRange(1, 2).Draw(t, "nbase")
	for i := 0; i < nbase; i++ {
		fb := gen.FrameBounds{MaxCols: b.MaxCols, MaxRows: b.MaxRows, WithID: true, NoCR: false, ManyEnumValues: true}
		if i == 0 && gen.Rare(t, "bigbase", 40) {
			// sizes beyond the small-frame regimes (insertion sort <= 12 rows,
			// ninther pivot > 40, several hash-table growth steps)
			fb.MinRows, fb.MaxRows = 41, 3*b.MaxRows+60
			if rapid.IntRange(0, 3).Draw(t, "over128") == 0 {
				fb.MinRows, fb.MaxRows = 129, 260 // a few hundred rows: thresholds of 64, 128, 256
			}
			if rapid.IntRange(0, 5).Draw(t, "over512") == 0 {
				fb.MinRows, fb.MaxRows, fb.MaxCols = 520, 700, 3 // thresholds of 256 and 512 rows, on halves and quarters too
			}
			fb.Clustered = rapid.Bool().Draw(t, "clustered")
			if fb.Clustered && fb.MinRows < 100 {
				fb.MinRows = 100 // room for a run to come back
			}
		}
		if i == 0 && b.HugeOdds > 0 && gen.Rare(t, "hugebase", b.HugeOdds) {
			// beyond size thresholds of a thousand rows (caches and fast
			// paths that only switch on for "large" frames)
			fb.MinRows, fb.MaxRows, fb.MaxCols, fb.SmallDomain = 1024, 2600, 3, true
			if rapid.Bool().Draw(t, "over2048") {
				fb.MinRows = 2048
			}
			w.Huge = true
		}
		if i == 0 && !w.Huge && gen.Rare(t, "widebase", 25) {
			// more columns than any small fixed-size table inside a frame
			fb.MinCols, fb.MaxCols = 9, 12
			if fb.MaxRows > 12 {
				fb.MinRows, fb.MaxRows = 0, 12
			}
		}
		fb.SmallDomain = rapid.IntRange(0, 5).Draw(t, "smalldomain") != 0
		fb.LongNames = b.LongNamesOdds > 0 && gen.Rare(t, "longnames", b.LongNamesOdds)
		if fb.Clustered {
			core.Probe("clustered-base-frame")
		}
		var fs *gen.FrameSpec
		if i == 0 && b.GiantOdds > 0 && gen.Rare(t, "giantbase", b.GiantOdds) {
			fs = gen.DrawGiantFrame(t)
			w.Huge, w.Giant = true, true
		} else {
			fs = gen.DrawFrame(t, fb)
		}
		w.Specs = append(w.Specs, fs)
		ic := inputCopy{spec: fs, ints: map[string][]int{}, floats: map[string][]uint64{}, bools: map[string][]bool{}, strs: map[string][]string{}}
		for _, c := range fs.Cols {
			switch c.Type {
			case "int":
				ic.ints[c.Name] = append([]int{}, c.Ints...)
			case "float":
				for _, f := range c.Floats {
					ic.floats[c.Name] = append(ic.floats[c.Name], mathBits(f))
				}
			case "bool":
				ic.bools[c.Name] = append([]bool{}, c.Bools...)
			default:
				for _, p := range c.Strs {
					ic.strs[c.Name] = append(ic.strs[c.Name], obs.StrText(p))
				}
			}
		}
		w.inputs = append(w.inputs, ic)
		built, origin := fs.Build(), fmt.Sprintf("New(base%d)", i)
		if via := rapid.IntRange(0, 7).Draw(t, "viacsv"); via <= 1 && !w.Giant {
			// the same table, built by the CSV reader instead of New
			if back, ok := gen.ViaCSV(built, via == 1); ok {
				built, origin = back, fmt.Sprintf("ReadCSV(ToCSV(New(base%d)))", i)
			}
		}
		if b.Cold {
			w.AddLight(&Member{Kind: KFrame, F: built, Origin: origin, Owner: -1})
		} else {
			w.AddFrame(built, origin, -1)
		}
	}
	return w
}

// InputsChanged checks that the caller-owned slices given to New still hold
// what they held.
func (w *World) InputsChanged() string {
	for _, ic := range w.inputs {
		for _, c := range ic.spec.Cols {
			switch c.Type {
			case "int":
				for i, x := range c.Ints {
					if x != ic.ints[c.Name][i] {
						return fmt.Sprintf("input slice of column %q was %d at %d, is %d", c.Name, ic.ints[c.Name][i], i, x)
					}
				}
			case "float":
				for i, f := range c.Floats {
					if mathBits(f) != ic.floats[c.Name][i] {
						return fmt.Sprintf("input slice of column %q changed at %d", c.Name, i)
					}
				}
			case "bool":
				for i, x := range c.Bools {
					if x != ic.bools[c.Name][i] {
						return fmt.Sprintf("input slice of column %q changed at %d", c.Name, i)
					}
				}
			default:
				for i, p := range c.Strs {
					if obs.StrText(p) != ic.strs[c.Name][i] {
						return fmt.Sprintf("input slice of column %q changed at %d", c.Name, i)
					}
				}
			}
		}
	}
	return ""
}

// CheckAll is invariant I1 over the whole family; it returns the first
// member that no longer matches its snapshot.
func (w *World) CheckAll() (*Member, string) {
	for _, m := range w.Members {
		if m.Cold {
			continue
		}
		if ch, d := m.Changed(); ch {
			return m, d
		}
	}
	if d := w.InputsChanged(); d != "" {
		return &Member{ID: -1, Origin: "arguments of New"}, d
	}
	return nil, ""
}

// canonRows is the multiset of rows of a frame observation.
func canonRows(fr *obs.Frame) string {
	if fr.HasErr {
		return "Err:" + fr.Err
	}
	rows := make([]string, fr.Len)
	for r := range rows {
		rows[r] = fr.Row(r)
	}
	sort.Strings(rows)
	return fmt.Sprintf("%q|%q|%d|", fr.Names, fr.Types, fr.Len) + strings.Join(rows, "\n")
}

func exactFrame(fr *obs.Frame) string {
	if fr.HasErr {
		return "Err:" + fr.Err
	}
	if fr.Bad != "" {
		return "Bad:" + fr.Bad
	}
	var sb strings.Builder
	fmt.Fprintf(&sb, "%q|%q|%d|", fr.Names, fr.Types, fr.Len)
	for r := 0; r < fr.Len; r++ {
		sb.WriteString(fr.Row(r))
		sb.WriteByte('\n')
	}
	return sb.String()
}

// FreshCopy rebuilds a frame member from what can be observed of it, with
// qframe.New: same columns, types and cells in the same order, but storage
// that nothing else has ever touched. The sequential specification of an
// operation is a function of the observable value of its operands, so the
// operation must return the same (canonical) result on the copy. Members that
// cannot be rebuilt faithfully from observations are returned as they are:
// groupers, views, frames in error state, and frames with enum columns (the
// rank order of an enum's values is not observable, and ordering comparisons
// and Sort depend on it).
func (m *Member) FreshCopy() (*Member, bool) {
	if m == nil || m.Kind != KFrame || m.F.Err != nil {
		return m, false
	}
	fr, ok := m.Snap.(*obs.Frame)
	if !ok || fr.HasErr || fr.Bad != "" || len(fr.Names) == 0 {
		return m, false
	}
	data := map[string]interface{}{}
	for i, name := range fr.Names {
		switch fr.Types[i] {
		case "int":
			v, err := m.F.IntView(name)
			if err != nil {
				return m, false
			}
			data[name] = v.Slice()
		case "float":
			v, err := m.F.FloatView(name)
			if err != nil {
				return m, false
			}
			data[name] = v.Slice()
		case "bool":
			v, err := m.F.BoolView(name)
			if err != nil {
				return m, false
			}
			data[name] = v.Slice()
		case "string":
			v, err := m.F.StringView(name)
			if err != nil {
				return m, false
			}
			data[name] = v.Slice()
		default:
			return m, false
		}
	}
	f := qframe.New(data, newqf.ColumnOrder(fr.Names...))
	if f.Err != nil {
		return m, false
	}
	c := &Member{ID: m.ID, Kind: KFrame, F: f, Origin: "fresh copy of " + m.Origin, Owner: m.Owner}
	c.snapshot()
	if c.Dig != m.Dig {
		return m, false // the copy does not observe like the original: do not use it
	}
	return c, true
}

// Fork returns a private view of the world for one free-running goroutine:
// its own member list and clause table (so that the harness itself shares no
// mutable state between goroutines), holding the same member and clause
// VALUES (which is the point: those are what qframe must tolerate being
// shared). The same goes for the evaluation context with the user's functions:
// it is built completely before the goroutines start and only passed to Eval
// afterwards, the way a program keeps one context around.
func (w *World) Fork() *World {
	f := &World{Specs: w.Specs, Huge: w.Huge, Giant: w.Giant, Members: append([]*Member{}, w.Members...), clauses: map[string]qframe.FilterClause{}, userCtx: w.UserCtx()}
	for k, v := range w.clauses {
		f.clauses[k] = v
	}
	return f
}

// AddLight registers a member without observing its cells or its error text:
// only what resolving an operation needs (names, types, length). Used by the
// race engine's "cold" runs, in which the harness must not be the first to
// touch whatever a value initialises lazily.
func (w *World) AddLight(m *Member) *Member {
	m.ID = len(w.Members)
	if m.Kind == KFrame {
		m.Len = m.F.Len()
		if m.F.Err == nil {
			m.Names = m.F.ColumnNames()
			for _, t := range m.F.ColumnTypes() {
				m.Types = append(m.Types, string(t))
			}
		}
	}
	m.Cold = true
	w.Members = append(w.Members, m)
	return m
}
