package main

import (
	"bytes"
	"fmt"
	"go/ast"
	"go/format"
	"go/parser"
	"go/token"
	"io/fs"
	"os"
	"path/filepath"
	"strconv"
	"strings"
)

// injectYields rewrites the scratch copy of qframe: every for/range body gets
// a leading simhook.Yield(<site>) so that the cooperative scheduler can
// pre-empt a simulated caller thread at loop granularity. With
// VERIF_YIELD_FINE=1 a yield is also put before every assignment whose
// left-hand side is an index or selector expression. /repo itself is never
// touched. Returns the number of sites and instrumented files.
func injectYields(root string, fine bool) (int, int, error) {
	var sites []string
	files := 0
	skipDirs := map[string]bool{"cmd": true, "contrib": true, "verifhook": true, "simhook": true, "examples": true}
	err := filepath.WalkDir(root, func(p string, d fs.DirEntry, err error) error {
		if err != nil {
			return err
		}
		rel, _ := filepath.Rel(root, p)
		if d.IsDir() {
			top := strings.Split(rel, string(filepath.Separator))[0]
			if skipDirs[top] {
				return filepath.SkipDir
			}
			return nil
		}
		if !strings.HasSuffix(p, ".go") || strings.HasSuffix(p, "_test.go") {
			return nil
		}
		fset := token.NewFileSet()
		f, err := parser.ParseFile(fset, p, nil, parser.ParseComments)
		if err != nil {
			return fmt.Errorf("%s: %w", rel, err)
		}
		if f.Name.Name == "main" {
			return nil
		}
		n0 := len(sites)
		mkYield := func(pos token.Pos) ast.Stmt {
			id := len(sites)
			position := fset.Position(pos)
			sites = append(sites, fmt.Sprintf("%s:%d", rel, position.Line))
			return &ast.ExprStmt{X: &ast.CallExpr{
				Fun:  &ast.SelectorExpr{X: ast.NewIdent("simhook"), Sel: ast.NewIdent("Yield")},
				Args: []ast.Expr{&ast.BasicLit{Kind: token.INT, Value: strconv.Itoa(id)}},
			}}
		}
		var fineBlocks func(b *ast.BlockStmt)
		fineBlocks = func(b *ast.BlockStmt) {
			if b == nil {
				return
			}
			var out []ast.Stmt
			for _, s := range b.List {
				if as, ok := s.(*ast.AssignStmt); ok && as.Tok != token.DEFINE {
					needs := false
					for _, l := range as.Lhs {
						switch l.(type) {
						case *ast.IndexExpr, *ast.SelectorExpr, *ast.StarExpr:
							needs = true
						}
					}
					if needs {
						out = append(out, mkYield(as.Pos()))
					}
				}
				out = append(out, s)
			}
			b.List = out
		}
		ast.Inspect(f, func(n ast.Node) bool {
			switch s := n.(type) {
			case *ast.ForStmt:
				s.Body.List = append([]ast.Stmt{mkYield(s.Pos())}, s.Body.List...)
			case *ast.RangeStmt:
				s.Body.List = append([]ast.Stmt{mkYield(s.Pos())}, s.Body.List...)
			}
			return true
		})
		if fine {
			ast.Inspect(f, func(n ast.Node) bool {
				if b, ok := n.(*ast.BlockStmt); ok {
					fineBlocks(b)
				}
				return true
			})
		}
		if len(sites) == n0 {
			return nil
		}
		// add the import
		imp := &ast.ImportSpec{Path: &ast.BasicLit{Kind: token.STRING, Value: strconv.Quote("github.com/tobgu/qframe/simhook")}}
		added := false
		for _, decl := range f.Decls {
			if gd, ok := decl.(*ast.GenDecl); ok && gd.Tok == token.IMPORT {
				gd.Specs = append(gd.Specs, imp)
				if !gd.Lparen.IsValid() {
					gd.Lparen = gd.Pos()
					gd.Rparen = gd.End()
				}
				added = true
				break
			}
		}
		if !added {
			gd := &ast.GenDecl{Tok: token.IMPORT, Specs: []ast.Spec{imp}}
			f.Decls = append([]ast.Decl{gd}, f.Decls...)
		}
		f.Imports = append(f.Imports, imp)
		var buf bytes.Buffer
		if err := format.Node(&buf, fset, f); err != nil {
			return fmt.Errorf("%s: %w", rel, err)
		}
		files++
		return os.WriteFile(p, buf.Bytes(), 0o644)
	})
	if err != nil {
		return 0, 0, err
	}
	// the hook package (exists in the scratch copy only)
	dir := filepath.Join(root, "simhook")
	if err := os.MkdirAll(dir, 0o755); err != nil {
		return 0, 0, err
	}
	var sb strings.Builder
	sb.WriteString("// Package simhook is generated into the scratch copy of qframe by vcheck.\npackage simhook\n\n")
	sb.WriteString("// Hook is called at every instrumented site when set.\nvar Hook func(site int)\n\n")
	sb.WriteString("// Yield is the injected scheduling point.\nfunc Yield(site int) {\n\tif Hook != nil {\n\t\tHook(site)\n\t}\n}\n\n")
	sb.WriteString("// Sites maps a site id to file:line of the instrumented statement.\nvar Sites = []string{\n")
	for _, s := range sites {
		sb.WriteString("\t" + strconv.Quote(s) + ",\n")
	}
	sb.WriteString("}\n")
	if err := os.WriteFile(filepath.Join(dir, "simhook.go"), []byte(sb.String()), 0o644); err != nil {
		return 0, 0, err
	}
	return len(sites), files, nil
}
