package main

import (
	"bytes"
	"fmt"
	"go/ast"
	"go/format"
	"go/parser"
	"go/token"
	"io/fs"
	"os"
	"path/filepath"
	"sort"
	"strconv"
	"strings"
)

// injectYields rewrites the scratch copy of qframe: every for/range body gets
// a leading simhook.Yield(<site>) so that the cooperative scheduler can
// pre-empt a simulated caller thread at loop granularity. With
// VERIF_YIELD_FINE=1 a yield is also put before every assignment whose
// left-hand side is an index or selector expression. /repo itself is never
// touched. Returns the number of sites and instrumented files.
//
// Goroutines that qframe itself starts are owned by the simulator as well:
// `go func(...){...}(...)` becomes a call that registers the body as a new
// simulated task (argument evaluation stays where it was), sync.WaitGroup
// becomes a cooperative counter. Concurrency the simulator cannot own
// (channels, select, sync.Cond, other forms of the go statement) is reported
// in unsupported; the caller then falls back to operation granularity.
func injectYields(root string, fine bool) (nsites int, nfiles int, unsupported []string, err error) {
	var sites []string
	files := 0
	unsup := map[string]bool{}
	skipDirs := map[string]bool{"cmd": true, "contrib": true, "verifhook": true, "simhook": true, "examples": true}
	err = filepath.WalkDir(root, func(p string, d fs.DirEntry, err error) error {
		if err != nil {
			return err
		}
		rel, _ := filepath.Rel(root, p)
		if d.IsDir() {
			top := strings.Split(rel, string(filepath.Separator))[0]
			if skipDirs[top] {
				return filepath.SkipDir
			}
			return nil
		}
		if !strings.HasSuffix(p, ".go") || strings.HasSuffix(p, "_test.go") {
			return nil
		}
		fset := token.NewFileSet()
		f, err := parser.ParseFile(fset, p, nil, parser.ParseComments)
		if err != nil {
			return fmt.Errorf("%s: %w", rel, err)
		}
		if f.Name.Name == "main" {
			return nil
		}
		n0 := len(sites)
		mkYield := func(pos token.Pos) ast.Stmt {
			id := len(sites)
			position := fset.Position(pos)
			sites = append(sites, fmt.Sprintf("%s:%d", rel, position.Line))
			return &ast.ExprStmt{X: &ast.CallExpr{
				Fun:  &ast.SelectorExpr{X: ast.NewIdent("simhook"), Sel: ast.NewIdent("Yield")},
				Args: []ast.Expr{&ast.BasicLit{Kind: token.INT, Value: strconv.Itoa(id)}},
			}}
		}
		var fineBlocks func(b *ast.BlockStmt)
		fineBlocks = func(b *ast.BlockStmt) {
			if b == nil {
				return
			}
			var out []ast.Stmt
			for _, s := range b.List {
				if as, ok := s.(*ast.AssignStmt); ok && as.Tok != token.DEFINE {
					needs := false
					for _, l := range as.Lhs {
						switch l.(type) {
						case *ast.IndexExpr, *ast.SelectorExpr, *ast.StarExpr:
							needs = true
						}
					}
					if needs {
						out = append(out, mkYield(as.Pos()))
					}
				}
				out = append(out, s)
			}
			b.List = out
		}
		// blocking synchronisation must be owned by the simulator too: a task
		// that is pre-empted while it holds a real sync.Mutex (or runs inside
		// a sync.Once) would make the next task block in the Go runtime, where
		// the cooperative scheduler cannot see it. The types are replaced by
		// cooperative ones with the same methods.
		usesSync := false
		ast.Inspect(f, func(n ast.Node) bool {
			if sel, ok := n.(*ast.SelectorExpr); ok {
				if id, ok := sel.X.(*ast.Ident); ok && id.Name == "sync" && id.Obj == nil {
					switch sel.Sel.Name {
					case "Cond", "NewCond":
						unsup[fmt.Sprintf("%s:%d: sync.%s", rel, fset.Position(sel.Pos()).Line, sel.Sel.Name)] = true
					case "Mutex", "RWMutex", "Once", "WaitGroup":
						id.Name = "simhook"
						usesSync = true
						sites = append(sites, fmt.Sprintf("%s:%d(sync.%s)", rel, fset.Position(sel.Pos()).Line, sel.Sel.Name))
					}
				}
			}
			return true
		})
		if usesSync {
			// keep the "sync" import used
			f.Decls = append(f.Decls, &ast.GenDecl{Tok: token.VAR, Specs: []ast.Spec{&ast.ValueSpec{
				Names: []*ast.Ident{ast.NewIdent("_")},
				Type:  &ast.SelectorExpr{X: ast.NewIdent("sync"), Sel: ast.NewIdent("Locker")},
			}}})
		}
		// goroutines started by the library
		rewriteGo := func(list []ast.Stmt) {
			for i, st := range list {
				g, ok := st.(*ast.GoStmt)
				if !ok {
					continue
				}
				lit, ok := g.Call.Fun.(*ast.FuncLit)
				if !ok {
					continue // stays a go statement: reported below
				}
				sites = append(sites, fmt.Sprintf("%s:%d(go)", rel, fset.Position(g.Pos()).Line))
				var inner ast.Stmt
				if lit.Type.Results != nil && len(lit.Type.Results.List) > 0 {
					inner = &ast.ExprStmt{X: &ast.CallExpr{Fun: &ast.FuncLit{Type: &ast.FuncType{Params: &ast.FieldList{}, Results: lit.Type.Results}, Body: lit.Body}}}
					inner = &ast.BlockStmt{List: []ast.Stmt{inner}}
				} else {
					inner = lit.Body
				}
				thunk := &ast.FuncLit{Type: &ast.FuncType{Params: &ast.FieldList{}}, Body: inner.(*ast.BlockStmt)}
				spawn := &ast.ExprStmt{X: &ast.CallExpr{
					Fun:  &ast.SelectorExpr{X: ast.NewIdent("simhook"), Sel: ast.NewIdent("Go")},
					Args: []ast.Expr{thunk},
				}}
				wrapper := &ast.FuncLit{Type: &ast.FuncType{Params: lit.Type.Params}, Body: &ast.BlockStmt{List: []ast.Stmt{spawn}}}
				list[i] = &ast.ExprStmt{X: &ast.CallExpr{Fun: wrapper, Args: g.Call.Args, Ellipsis: g.Call.Ellipsis}}
			}
		}
		ast.Inspect(f, func(n ast.Node) bool {
			switch s := n.(type) {
			case *ast.BlockStmt:
				rewriteGo(s.List)
			case *ast.CaseClause:
				rewriteGo(s.Body)
			case *ast.CommClause:
				rewriteGo(s.Body)
			}
			return true
		})
		ast.Inspect(f, func(n ast.Node) bool {
			where := func(p token.Pos, what string) {
				unsup[fmt.Sprintf("%s:%d: %s", rel, fset.Position(p).Line, what)] = true
			}
			switch s := n.(type) {
			case *ast.GoStmt:
				where(s.Pos(), "go statement that is not a function literal")
			case *ast.ChanType:
				where(s.Pos(), "channel")
			case *ast.SendStmt:
				where(s.Pos(), "channel send")
			case *ast.SelectStmt:
				where(s.Pos(), "select")
			case *ast.UnaryExpr:
				if s.Op == token.ARROW {
					where(s.Pos(), "channel receive")
				}
			case *ast.ImportSpec:
				if strings.Contains(s.Path.Value, "errgroup") || strings.Contains(s.Path.Value, "semaphore") {
					where(s.Pos(), "import "+s.Path.Value)
				}
			}
			return true
		})
		ast.Inspect(f, func(n ast.Node) bool {
			switch s := n.(type) {
			case *ast.ForStmt:
				s.Body.List = append([]ast.Stmt{mkYield(s.Pos())}, s.Body.List...)
			case *ast.RangeStmt:
				s.Body.List = append([]ast.Stmt{mkYield(s.Pos())}, s.Body.List...)
			}
			return true
		})
		if fine {
			ast.Inspect(f, func(n ast.Node) bool {
				if b, ok := n.(*ast.BlockStmt); ok {
					fineBlocks(b)
				}
				return true
			})
		}
		if len(sites) == n0 {
			return nil
		}
		// add the import
		imp := &ast.ImportSpec{Path: &ast.BasicLit{Kind: token.STRING, Value: strconv.Quote("github.com/tobgu/qframe/simhook")}}
		added := false
		for _, decl := range f.Decls {
			if gd, ok := decl.(*ast.GenDecl); ok && gd.Tok == token.IMPORT {
				gd.Specs = append(gd.Specs, imp)
				if !gd.Lparen.IsValid() {
					gd.Lparen = gd.Pos()
					gd.Rparen = gd.End()
				}
				added = true
				break
			}
		}
		if !added {
			gd := &ast.GenDecl{Tok: token.IMPORT, Specs: []ast.Spec{imp}}
			f.Decls = append([]ast.Decl{gd}, f.Decls...)
		}
		f.Imports = append(f.Imports, imp)
		var buf bytes.Buffer
		if err := format.Node(&buf, fset, f); err != nil {
			return fmt.Errorf("%s: %w", rel, err)
		}
		files++
		return os.WriteFile(p, buf.Bytes(), 0o644)
	})
	if err != nil {
		return 0, 0, nil, err
	}
	for u := range unsup {
		unsupported = append(unsupported, u)
	}
	sort.Strings(unsupported)
	// the hook package (exists in the scratch copy only)
	dir := filepath.Join(root, "simhook")
	if err := os.MkdirAll(dir, 0o755); err != nil {
		return 0, 0, nil, err
	}
	var sb strings.Builder
	sb.WriteString("// Package simhook is generated into the scratch copy of qframe by vcheck.\npackage simhook\n\n")
	sb.WriteString("// Hook is called at every instrumented site when set.\nvar Hook func(site int)\n\n")
	sb.WriteString("// Yield is the injected scheduling point.\nfunc Yield(site int) {\n\tif Hook != nil {\n\t\tHook(site)\n\t}\n}\n\n")
	sb.WriteString(coopSync)
	sb.WriteString("// Sites maps a site id to file:line of the instrumented statement.\nvar Sites = []string{\n")
	for _, s := range sites {
		sb.WriteString("\t" + strconv.Quote(s) + ",\n")
	}
	sb.WriteString("}\n")
	if err := os.WriteFile(filepath.Join(dir, "simhook.go"), []byte(sb.String()), 0o644); err != nil {
		return 0, 0, nil, err
	}
	return len(sites), files, unsupported, nil
}

// coopSync is the cooperative replacement of the blocking sync types: waiting
// is a scheduling point, so the scheduler decides who gets the lock next and
// no task ever blocks inside the Go runtime. Held counts locks currently held
// (and Once bodies in progress): harness code must not call into qframe while
// a parked task holds one.
const coopSync = `// Held is the number of cooperative locks currently held.
var Held int

const lockSite = -2

// Mutex replaces sync.Mutex in the scratch copy.
type Mutex struct{ locked bool }

func (m *Mutex) Lock() {
	for m.locked {
		waitUntil(func() bool { return !m.locked })
	}
	m.locked = true
	Held++
}
func (m *Mutex) TryLock() bool {
	if m.locked {
		return false
	}
	m.locked = true
	Held++
	return true
}
func (m *Mutex) Unlock() {
	if !m.locked {
		panic("sync: unlock of unlocked mutex")
	}
	m.locked = false
	Held--
}

// RWMutex replaces sync.RWMutex.
type RWMutex struct {
	writer  bool
	readers int
}

func (m *RWMutex) Lock() {
	for m.writer || m.readers > 0 {
		waitUntil(func() bool { return !m.writer && m.readers == 0 })
	}
	m.writer = true
	Held++
}
func (m *RWMutex) Unlock() { m.writer = false; Held-- }
func (m *RWMutex) RLock() {
	for m.writer {
		waitUntil(func() bool { return !m.writer })
	}
	m.readers++
	Held++
}
func (m *RWMutex) RUnlock() { m.readers--; Held-- }
func (m *RWMutex) TryLock() bool {
	if m.writer || m.readers > 0 {
		return false
	}
	m.writer = true
	Held++
	return true
}
func (m *RWMutex) TryRLock() bool {
	if m.writer {
		return false
	}
	m.readers++
	Held++
	return true
}

// Once replaces sync.Once.
type Once struct{ done, running bool }

func (o *Once) Do(f func()) {
	for o.running {
		waitUntil(func() bool { return !o.running })
	}
	if o.done {
		return
	}
	o.running = true
	Held++
	defer func() { o.running, o.done = false, true; Held-- }()
	f()
}

// WaitGroup replaces sync.WaitGroup: Wait parks the task until the counter is zero.
type WaitGroup struct{ n int }

func (w *WaitGroup) Add(d int) {
	w.n += d
	if w.n < 0 {
		panic("sync: negative WaitGroup counter")
	}
}
func (w *WaitGroup) Done() { w.Add(-1) }
func (w *WaitGroup) Wait() {
	for w.n > 0 {
		waitUntil(func() bool { return w.n <= 0 })
	}
}
func (w *WaitGroup) Go(f func()) {
	w.Add(1)
	Go(func() {
		defer w.Done()
		f()
	})
}

// Spawn is installed by the engine: it registers f as a new simulated task
// (the scheduler decides when it runs). Without a scheduler the body runs at
// once, which is one of the legal schedules.
var Spawn func(f func())

// Go replaces the go statement in the scratch copy.
func Go(f func()) {
	if Spawn != nil {
		Spawn(f)
		return
	}
	f()
}

// Block parks the calling task until cond holds (installed by the engine:
// the scheduler's Block). A waiting task is not runnable, so a priority
// schedule cannot starve the lock holder.
var Block func(cond func() bool)

func waitUntil(cond func() bool) {
	if Block == nil {
		panic("simhook: lock held with no scheduler running")
	}
	Block(cond)
}

`
