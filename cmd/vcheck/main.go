// vcheck is the driver of the qframe deterministic-simulation checks: it
// copies /repo's current working tree to a scratch directory, instruments it
// where an engine asks for that, builds the engine against the copy with
// -tags verif, fans the seeded workers out over the cores, merges their
// statistics into /verif/evidence/<id>.json and prints VIOLATION /
// KNOWN-FINDING lines.
//
// Exit codes: 0 the property held on everything explored; 1 a violation that
// known_findings.json does not list; 2 build failure, time-out, worker crash
// or any other trouble of the machinery itself (never reported as a
// violation and never as a pass).
package main

import (
	"bytes"
	"encoding/binary"
	"encoding/json"
	"fmt"
	"io"
	"io/fs"
	"os"
	"os/exec"
	"os/signal"
	"path/filepath"
	"regexp"
	"runtime"
	"sort"
	"strconv"
	"strings"
	"sync"
	"syscall"
	"time"
)

// repoDir is the tree under test: /repo. VERIF_REPO overrides it for
// background experiments on a snapshot (the registered commands never set it).
var repoDir = func() string {
	if d := os.Getenv("VERIF_REPO"); d != "" {
		return d
	}
	return "/repo"
}()

// verifDir is the checkout of the verification machinery the command runs
// in: the working directory when it holds go.mod of module verifsim (so that
// a background snapshot uses its own engines and writes its own evidence),
// /verif otherwise.
var verifDir = func() string {
	if wd, err := os.Getwd(); err == nil {
		if b, err := os.ReadFile(filepath.Join(wd, "go.mod")); err == nil && strings.HasPrefix(string(b), "module verifsim") {
			return wd
		}
	}
	return "/verif"
}()

// phase is one engine run contributing to a property's verdict.
type phase struct {
	Engine string // directory under engines/
	Test   string // test function
	Inject bool   // run the yield injector over the scratch copy
	Fine   bool   // with Inject: also yield before every indexed/selector/pointer assignment
	// ThoroughOnly phases are skipped in the quick tier.
	ThoroughOnly bool
	Race         bool // build with -race, free-running goroutines
	Cpu          int  // GOMAXPROCS of the worker (-test.cpu), default 1
	// QuickChecks is the number of rapid checks per worker in the quick tier.
	QuickChecks int
	// ThoroughChecks is the number of rapid checks per worker and round in the thorough tier.
	ThoroughChecks int
	Env            []string
}

type propCfg struct {
	ID     string
	Level  string
	Rule   string
	Phases []phase
	Real   []string
	Stub   []string
	Assume []string
}

var commonReal = []string{"every line of qframe built from /repo's working tree (-tags verif)", "Go runtime, encoding/csv, encoding/json, bufio, strconv, regexp"}

var props = map[string]propCfg{
	"C12": {
		ID: "C12", Level: "exploration",
		Rule: "cases = (generated RFC 4180 document, reader configuration, read plan: sizes/cuts/EOF style, scan-buffer capacity), all drawn from the rapid bit stream of the worker seed; a case is non-trivial when at least one Read ended before both the caller's buffer and the document did, at a position inside a field, quote pair, CRLF or at a field start; distinct = distinct hash of (document bytes, realised read boundaries, buffer capacity, EOF style). Second phase: a few hundred documents of 4096..17000 rows with declared enum columns, read twice with different deliveries under the Go race detector (ReadCSV may only use goroutines of its own if the result stays a function of the bytes)",
		Phases: []phase{
			{Engine: "csvfrag", Test: "TestC12", QuickChecks: 50000, ThoroughChecks: 250000},
			// large typed documents under the race detector (an implementation may be tempted to parallelise)
			{Engine: "csvfrag", Test: "TestC12Race", Race: true, Cpu: 4, QuickChecks: 12, ThoroughChecks: 60},
		},
		Real:   commonReal,
		Stub:   []string{"io.Reader (SimReader: fragmentation, EOF style, optionally also io.WriterTo / io.ByteReader)", "initial scan-buffer capacity (verif hook, 1..64 bytes or the shipped 1024)"},
		Assume: []string{"documents are drawn from the unambiguous well-formed space described in DESIGN.md §3 (no CR inside cells; a one-column empty last line always terminated)", "readers never return (0, nil)"},
	},
	"C13": {
		ID: "C13", Level: "exploration",
		Rule:   "cases = (generated frame incl. scramble operations, writer options Header/Columns, EmptyNull, pipe capacity, schedule policy), writer ToCSV and reader ReadCSV run as two simulated tasks over a bounded SimPipe; a case is non-trivial when the reader received the stream in more than one chunk (chunking decided by the interleaving); distinct = distinct hash of (bytes written, chunk sizes seen by the reader, EmptyNull)",
		Phases: []phase{{Engine: "roundtrip", Test: "TestC13", QuickChecks: 60000, ThoroughChecks: 250000}},
		Real:   append(append([]string{}, commonReal...), "encoding/csv writer inside ToCSV"),
		Stub:   []string{"byte transport between writer and reader (SimPipe, bounded, blocking)", "caller-thread scheduler (PCT / random walk over pipe operations)"},
		Assume: []string{"strings contain no CR (excluded by the property)", "a strict enum column with null cells is read back with EmptyNull (its null has no declared CSV form otherwise)"},
	},
	"C14": {
		ID: "C14", Level: "exploration",
		Rule:   "cases = (generated frame with names/strings over arbitrary bytes, floats finite or NaN, scramble, pipe capacity, schedule policy); ToJSON output is parsed with encoding/json (token stream, UseNumber) and fed to ReadJSON through the SimPipe; non-trivial when a name or string needs escaping or a float column is present; distinct = distinct output byte strings",
		Phases: []phase{{Engine: "roundtrip", Test: "TestC14", QuickChecks: 60000, ThoroughChecks: 250000}},
		Real:   append(append([]string{}, commonReal...), "encoding/json as independent parser and inside ReadJSON"),
		Stub:   []string{"byte transport between writer and reader (SimPipe)", "caller-thread scheduler"},
		Assume: []string{"a string with invalid UTF-8 denotes the string with U+FFFD for every invalid byte", "ReadJSON is only expected to invert frames with >=1 row, NaN-free float columns and names that stay distinct and valid after JSON decoding"},
	},
	"C19": {
		ID: "C19", Level: "exploration",
		Rule:   "cases = (generated frame >=1 row, scramble, dialect: escape rune / placeholder style / table, driver variation: ExecerContext fast path | ErrSkip | prepare-only, NumInput exact | -1, text as string | reused []byte buffer, bool native | int64+Coerce, Precision); every case executes ToSQL against SimDB (statements parsed by a strict INSERT grammar, rows stored) and ReadSQL of the stored rows and of a NULL-bearing variant; all cases that reach the driver are non-trivial; distinct = distinct (statement log, driver config, dialect)",
		Phases: []phase{{Engine: "roundtrip", Test: "TestC19", QuickChecks: 60000, ThoroughChecks: 250000}},
		Real:   append(append([]string{}, commonReal...), "database/sql above the driver interface (pool, Tx, Stmt, Rows, parameter conversion)"),
		Stub:   []string{"database/sql driver and store (SimDB)"},
		Assume: []string{"identifiers come from an alphabet that cannot collide with statement syntax (no escape rune, comma, parenthesis)", "Precision(p) is checked as |got-want| <= 0.5*10^-p for |want| <= 1e9 only"},
	},
	"C01": {
		ID: "C01", Level: "exploration",
		Rule: "cases = (1..2 base frames of all column types incl. nulls, a sequentially built family of derived frames/groupers/views that share column and index storage, 1..3 simulated clients each running a program of operations whose receivers are picked among the members existing at that moment, a PCT or random-walk schedule over the loop-level scheduling points injected into a scratch copy of qframe); oracle I1: every member and every slice handed to New equals the snapshot taken at its creation, checked after every operation and at sampled scheduler steps while other clients are inside an operation; non-trivial = at least one derived member exists (storage is shared); distinct = distinct (build ops, programs, context-switch sequence)",
		Phases: []phase{
			{Engine: "family", Test: "TestC01", Inject: true, QuickChecks: 40000, ThoroughChecks: 40000},
			{Engine: "family", Test: "TestC01", Inject: true, Fine: true, ThoroughOnly: true, ThoroughChecks: 30000},
		},
		Real:   commonReal,
		Stub:   []string{"caller-thread scheduler (cooperative, one baton; PCT / random walk)", "scheduling points: simhook.Yield inserted by go/ast at every for/range body of a scratch copy (never in /repo)", "hash function (seeded good hash via verif hook) and math/rand seed, so that step counts replay across processes"},
		Assume: []string{"yields sit at loop heads: interference that needs a switch between two straight-line statements of one iteration is left to the race engine (VERIF_YIELD_FINE=1 adds yields before indexed/selector assignments)", "Append is excluded (documented as not to be used, not listed by C01)"},
	},
	"C11": {
		ID: "C11", Level: "exploration",
		Rule: "deterministic half: same world as C01 with 2..4 clients; oracle I2: the canonical result of every operation executed under the schedule equals the result of the same operation re-run alone on the same operands (Distinct/GroupBy/Aggregate compared as sets), plus I1; non-trivial = at least one context switch pre-empted a client inside an operation; distinct = distinct (programs, build ops, context-switch sequence). Race half: the same generated programs with 2..8 free-running goroutines against an uninstrumented -race build (GORACE=halt_on_error), plus the same I2 comparison.",
		Phases: []phase{
			{Engine: "family", Test: "TestC11", Inject: true, QuickChecks: 40000, ThoroughChecks: 40000},
			{Engine: "family", Test: "TestC11", Inject: true, Fine: true, ThoroughOnly: true, ThoroughChecks: 30000},
			{Engine: "race", Test: "TestC11Race", Race: true, Cpu: 4, QuickChecks: 2500, ThoroughChecks: 3000},
			{Engine: "race", Test: "TestC11FirstUse", Race: true, Cpu: 4, QuickChecks: 24, ThoroughChecks: 150},
		},
		Real:   commonReal,
		Stub:   []string{"caller-thread scheduler (cooperative) in the deterministic half; the Go runtime scheduler in the race half (real, not controlled: see DESIGN.md §2.4)", "scheduling points injected at loops of a scratch copy", "hash function and math/rand seed"},
		Assume: []string{"misuse is out of scope: user code mutating an eval.Context or a config slice while qframe reads it", "the race half observes real executions; its repeatability rests on happens-before detection being timing-independent"},
	},
	"C04": {
		ID: "C04", Level: "exploration",
		Rule:   "cases = (generated frame 0..40 rows quick / 0..300 thorough incl. nulls, empty vs null strings, 0.0/-0.0, two NaN encodings, enums; scramble so that physical and logical order differ; any subset and order of key columns; Null setting; hash flavour: real memhash | seeded good hash | masked to 0..4 bits (collision storms) | low-32-bit clashes | seed-blind (multi-column keys collide) | length-only | high-32-only; math/rand seed); oracle = a dozen-line reference partition (Go map in frame order) for QFrames() and for Aggregate with built-in and recording user functions; a case is non-trivial when there are >=2 classes and the table saw >=1 insert collision or >=1 growth step (read from Grouper.Stats); distinct = distinct (classes, flavour, collision/relocation counts, keys, Null)",
		Phases: []phase{{Engine: "hashsim", Test: "TestC04", QuickChecks: 25000, ThoroughChecks: 60000}},
		Real:   commonReal,
		Stub:   []string{"hash function behind internal/hash.HashBytes (verif hook) in all flavours but 'real'", "math/rand seed"},
		Assume: []string{"float sums are compared numerically with the left-to-right fold in frame order (NaN equals NaN)", "'real' flavour runs are replayable up to group order only"},
	},
	"C05": {
		ID: "C05", Level: "exploration",
		Rule:   "same world as C04 (frames, key columns incl. none = all columns, Null setting, hash flavours); oracle: exactly one returned row per class of the reference partition, every returned row identical in every cell to the input row with its hidden id; non-trivial when 2 <= classes < rows; distinct = distinct (classes, flavour, keys, Null)",
		Phases: []phase{{Engine: "hashsim", Test: "TestC05", QuickChecks: 40000, ThoroughChecks: 100000}},
		Real:   commonReal,
		Stub:   []string{"hash function behind internal/hash.HashBytes (verif hook) in all flavours but 'real'", "math/rand seed"},
		Assume: []string{"with no key columns the hidden id column is dropped first and rows are matched by content"},
	},
	"C15": {
		ID: "C15", Level: "fault_enumeration",
		Rule:   "for every seeded input (CSV document+config, JSON document, frame for ToCSV/ToJSON/ToSQL, stored table for ReadSQL) the fault-free run is recorded, then EVERY fault position is executed: reader byte offsets 0..len (len = instead of EOF) x {(0,err) for good, (k>0,err) for good, (0,err) once then working again} x {a drawn opaque kind, io.ErrUnexpectedEOF, wrapped io.EOF}; writer byte offsets 0..len-1 x {(0,err) for good, short write for good, one failing Write then working again} x drawn kind; driver calls (Prepare, Exec, Stmt.Exec, Query, every Rows.Next incl. the one that would report EOF) x {opaque, driver.ErrBadConn}; each under a freshly derived fragmentation plan. evaluations = fault runs; a run is non-trivial when the stub actually returned the injected error to its caller (fired); distinct = distinct (surface, input, position, shape, kind). Positions are exhaustive per input; inputs are sampled by seed.",
		Phases: []phase{{Engine: "iofault", Test: "TestC15", QuickChecks: 350, ThoroughChecks: 800}},
		Real:   append(append([]string{}, commonReal...), "database/sql above the driver interface", "bufio inside encoding/csv"),
		Stub:   []string{"io.Reader (SimReader with fault)", "io.Writer (SimWriter with fault / full disk)", "database/sql driver (SimDB with fault at call k)"},
		Assume: []string{"driver.ErrBadConn may be absorbed by database/sql itself (it retries Stmt.Exec/Stmt.Query, not Tx.Exec), so for it only 'no error => nothing lost' is required; 'fault fired => error reported' is required for the opaque driver error, which database/sql hands to its caller on every path", "an error wrapping io.EOF may be read as end of stream: only 'no silent loss' is required for it", "a transient failure (the stub fails once and then works again) obliges the call to report an error only if something was lost: success with the complete, correct result is accepted", "data delivered together with an error: only 'no error => complete result' is required (encoding/json may legitimately finish on the data)", "cancellation of the Tx context is not injected (database/sql reacts on its own goroutine; not replayable)"},
	},
}

func main() {
	if len(os.Args) < 2 {
		usage()
	}
	switch os.Args[1] {
	case "run":
		os.Exit(cmdRun(os.Args[2:]))
	case "replay":
		os.Exit(cmdReplay(os.Args[2:]))
	case "selftest":
		os.Exit(cmdSelftest(os.Args[2:]))
	case "build":
		// development aid: vcheck build <ID> <dir> leaves the engine binaries (and the scratch copy) in <dir>
		if len(os.Args) < 4 {
			usage()
		}
		cfg, ok := props[os.Args[2]]
		if !ok {
			usage()
		}
		dir, _ := filepath.Abs(os.Args[3])
		os.MkdirAll(dir, 0o755)
		sc := &scratch{dir: dir}
		for _, ph := range cfg.Phases {
			bin, info, err := build(sc, ph)
			if err != nil {
				fmt.Fprintln(os.Stderr, err)
				os.Exit(2)
			}
			fmt.Println(bin, info)
		}
	case "list":
		ids := make([]string, 0, len(props))
		for id := range props {
			ids = append(ids, id)
		}
		sort.Strings(ids)
		fmt.Println(strings.Join(ids, " "))
	default:
		usage()
	}
}

func usage() {
	fmt.Fprintln(os.Stderr, "usage: vcheck run <ID> [--tier quick|thorough] | vcheck replay <file> | vcheck selftest determinism [ID...] | vcheck list")
	os.Exit(2)
}

func envSeed() uint64 {
	s, err := strconv.ParseUint(os.Getenv("VERIF_SEED"), 10, 64)
	if err != nil || s == 0 {
		return 1
	}
	return s
}

func splitmix(x uint64) uint64 {
	x += 0x9e3779b97f4a7c15
	z := x
	z = (z ^ (z >> 30)) * 0xbf58476d1ce4e5b9
	z = (z ^ (z >> 27)) * 0x94d049bb133111eb
	return z ^ (z >> 31)
}

func workerSeed(seed uint64, engine, test string, round, w int) uint64 {
	h := seed
	for _, c := range []byte(engine + "/" + test) {
		h = splitmix(h ^ uint64(c))
	}
	h = splitmix(h ^ uint64(round)<<20 ^ uint64(w))
	if h == 0 {
		h = 1
	}
	return h
}

func goEnv() []string {
	env := os.Environ()
	env = append(env, "GOFLAGS=-mod=mod", "GOPROXY=off", "GOSUMDB=off", "GOTOOLCHAIN=local", "CGO_ENABLED=1")
	return env
}

// scratch is a private build area, removed on exit.
type scratch struct {
	dir string
}

var (
	cleanupMu   sync.Mutex
	cleanupDirs []string
)

func newScratch(tag string) (*scratch, error) {
	d, err := os.MkdirTemp("", "vcheck-"+tag+"-")
	if err != nil {
		return nil, err
	}
	cleanupMu.Lock()
	cleanupDirs = append(cleanupDirs, d)
	cleanupMu.Unlock()
	return &scratch{dir: d}, nil
}

func cleanupAll() {
	cleanupMu.Lock()
	defer cleanupMu.Unlock()
	for _, d := range cleanupDirs {
		os.RemoveAll(d)
	}
	cleanupDirs = nil
}

func installSignalCleanup() {
	ch := make(chan os.Signal, 1)
	signal.Notify(ch, syscall.SIGINT, syscall.SIGTERM)
	go func() {
		<-ch
		cleanupAll()
		os.Exit(2)
	}()
}

// copyRepo copies the non-test Go sources of /repo's working tree.
func copyRepo(dst string) (int, error) {
	n := 0
	err := filepath.WalkDir(repoDir, func(p string, d fs.DirEntry, err error) error {
		if err != nil {
			return err
		}
		rel, _ := filepath.Rel(repoDir, p)
		if d.IsDir() {
			if d.Name() == ".git" || d.Name() == "testdata" || rel == "out" {
				return filepath.SkipDir
			}
			return os.MkdirAll(filepath.Join(dst, rel), 0o755)
		}
		name := d.Name()
		if !(strings.HasSuffix(name, ".go") || name == "go.mod" || name == "go.sum") || strings.HasSuffix(name, "_test.go") {
			return nil
		}
		b, err := os.ReadFile(p)
		if err != nil {
			return err
		}
		n++
		return os.WriteFile(filepath.Join(dst, rel), b, 0o644)
	})
	return n, err
}

// coarse is set when the working tree contains concurrency the injector
// cannot hand to the simulator (channels, select, ...): the cooperative
// phases then run against the plain copy, with scheduling points between
// operations only (the race engine is unaffected).
var coarse []string

// build builds one engine against a scratch copy of /repo.
func build(sc *scratch, ph phase) (bin string, info map[string]interface{}, err error) {
	info = map[string]interface{}{}
	copyName := "repo"
	if ph.Inject && coarse == nil {
		copyName = "repo-yield"
		if ph.Fine {
			copyName = "repo-yield-fine"
		}
	}
	repoCopy := filepath.Join(sc.dir, copyName)
	if _, err := os.Stat(repoCopy); err != nil {
		n, err := copyRepo(repoCopy)
		if err != nil {
			return "", info, fmt.Errorf("copy /repo: %w", err)
		}
		info["repo_files_copied"] = n
	}
	if ph.Inject && coarse == nil {
		if _, err := os.Stat(filepath.Join(repoCopy, "simhook")); err != nil {
			sites, files, unsupported, err := injectYields(repoCopy, ph.Fine || os.Getenv("VERIF_YIELD_FINE") == "1")
			if err != nil {
				return "", info, fmt.Errorf("yield injection: %w", err)
			}
			if len(unsupported) > 0 {
				coarse = unsupported
				fmt.Printf("vcheck: NOTE qframe now uses concurrency the simulator cannot own (%s); the cooperative phases run at operation granularity\n", strings.Join(unsupported, "; "))
				return build(sc, ph)
			}
			info["yield_sites"] = sites
			info["instrumented_files"] = files
		}
	}
	if ph.Inject && coarse != nil {
		info["coarse_because"] = coarse
	}
	mod, err := os.ReadFile(filepath.Join(verifDir, "go.mod"))
	if err != nil {
		return "", info, err
	}
	re := regexp.MustCompile(`(?m)^replace github.com/tobgu/qframe => .*$`)
	mod = re.ReplaceAll(mod, []byte("replace github.com/tobgu/qframe => "+repoCopy))
	modfile := filepath.Join(sc.dir, "go.mod")
	if err := os.WriteFile(modfile, mod, 0o644); err != nil {
		return "", info, err
	}
	sum, _ := os.ReadFile(filepath.Join(verifDir, "go.sum"))
	if err := os.WriteFile(filepath.Join(sc.dir, "go.sum"), sum, 0o644); err != nil {
		return "", info, err
	}
	bin = filepath.Join(sc.dir, ph.Engine+".test")
	if ph.Inject && coarse != nil {
		bin = filepath.Join(sc.dir, ph.Engine+".coarse.test")
	}
	if ph.Fine {
		bin = filepath.Join(sc.dir, ph.Engine+".fine.test")
	}
	if ph.Race {
		bin = filepath.Join(sc.dir, ph.Engine+".race.test")
	}
	tags := "verif"
	if ph.Inject && coarse == nil {
		tags = "verif,yieldinject"
	}
	args := []string{"test", "-c", "-tags", tags, "-trimpath", "-modfile", modfile, "-o", bin}
	if ph.Race {
		args = append(args, "-race")
	}
	args = append(args, "./engines/"+ph.Engine)
	cmd := exec.Command("go", args...)
	cmd.Dir = verifDir
	cmd.Env = goEnv()
	var out bytes.Buffer
	cmd.Stdout, cmd.Stderr = &out, &out
	t0 := time.Now()
	if err := cmd.Run(); err != nil {
		return "", info, fmt.Errorf("build of engine %s failed: %v\n%s", ph.Engine, err, out.String())
	}
	info["build_s"] = time.Since(t0).Seconds()
	return bin, info, nil
}

// workerStats mirrors sim/core.Stats.
type workerStats struct {
	Property    string            `json:"property"`
	Engine      string            `json:"engine"`
	Seed        uint64            `json:"seed"`
	Evaluations int64             `json:"evaluations"`
	Nontrivial  int64             `json:"nontrivial"`
	SimSteps    int64             `json:"sim_steps"`
	Faults      map[string]int64  `json:"faults_fired"`
	Configured  map[string]int64  `json:"faults_configured"`
	Probes      map[string]int64  `json:"probes"`
	Known       map[string]int64  `json:"known_hits"`
	KnownText   map[string]string `json:"known_text"`
	Samples     []json.RawMessage `json:"samples"`
	Violations  int64             `json:"violations"`
	WallS       float64           `json:"wall_s"`
	SigsCapped  bool              `json:"sigs_capped"`
	Extra       map[string]int64  `json:"extra"`
}

type workerResult struct {
	round, w  int
	checks    int
	seed      uint64
	exit      int
	output    string
	stats     *workerStats
	sigs      []uint64
	failfile  string
	trace     []byte
	signature string
	message   string
	dir       string
	infraErr  string
	ph        phase
}

var sigRe = regexp.MustCompile(`VIOLATION-SIG (\S+) :: (.*)`)

func runWorker(bin string, sc *scratch, id, tier string, ph phase, round, w int, seed uint64, checks int, timeout time.Duration, extraArgs []string) *workerResult {
	res := &workerResult{round: round, w: w, seed: seed, checks: checks, ph: ph}
	dir := filepath.Join(sc.dir, fmt.Sprintf("%s-r%dw%d", ph.Engine, round, w))
	if ph.Race {
		dir += "race"
	}
	if ph.Fine {
		dir += "fine"
	}
	res.dir = dir
	if err := os.MkdirAll(dir, 0o755); err != nil {
		res.infraErr = err.Error()
		return res
	}
	cpu := "1"
	if ph.Cpu > 0 {
		cpu = strconv.Itoa(ph.Cpu)
	}
	args := []string{"-test.run", "^" + ph.Test + "$", "-test.count=1", "-test.cpu=" + cpu,
		"-test.timeout", timeout.String(),
		"-rapid.checks", strconv.Itoa(checks), "-rapid.seed", strconv.FormatUint(seed, 10), "-rapid.shrinktime", "45s"}
	args = append(args, extraArgs...)
	cmd := exec.Command(bin, args...)
	cmd.Dir = dir
	env := append(os.Environ(),
		"VERIF_PROP="+id, "VERIF_TIER="+tier,
		"VERIF_STATS="+filepath.Join(dir, "stats.json"),
		"VERIF_TRACE="+filepath.Join(dir, "trace.json"),
		"VERIF_KNOWN="+filepath.Join(verifDir, "known_findings.json"),
		"VERIF_WORKER_SEED="+strconv.FormatUint(seed, 10),
		"VERIF_WORKER="+strconv.Itoa(w),
		"VERIF_ROUND="+strconv.Itoa(round),
	)
	if ph.Race {
		env = append(env, "GORACE=halt_on_error=1 exitcode=66")
	}
	env = append(env, ph.Env...)
	if ph.Inject && coarse != nil {
		env = append(env, "VERIF_COARSE=1")
	}
	cmd.Env = env
	var out bytes.Buffer
	cmd.Stdout, cmd.Stderr = &out, &out
	err := cmd.Run()
	res.output = out.String()
	if err != nil {
		if ee, ok := err.(*exec.ExitError); ok {
			res.exit = ee.ExitCode()
		} else {
			res.infraErr = err.Error()
			return res
		}
	}
	if b, err := os.ReadFile(filepath.Join(dir, "stats.json")); err == nil {
		var st workerStats
		if json.Unmarshal(b, &st) == nil {
			res.stats = &st
		}
	}
	if b, err := os.ReadFile(filepath.Join(dir, "stats.json.sigs")); err == nil {
		for i := 0; i+8 <= len(b); i += 8 {
			res.sigs = append(res.sigs, binary.LittleEndian.Uint64(b[i:]))
		}
	}
	if res.exit != 0 {
		if m := sigRe.FindAllStringSubmatch(res.output, -1); len(m) > 0 {
			last := m[len(m)-1]
			res.signature, res.message = last[1], last[2]
		}
		ff, _ := filepath.Glob(filepath.Join(dir, "testdata", "rapid", "*", "*.fail"))
		if len(ff) > 0 {
			res.failfile = ff[0]
		}
		if b, err := os.ReadFile(filepath.Join(dir, "trace.json")); err == nil {
			res.trace = b
		}
		if res.signature == "" {
			if ph.Race && (res.exit == 66 || strings.Contains(res.output, "WARNING: DATA RACE")) {
				res.signature = id + ":race:" + raceSite(res.output)
				res.message = "data race reported by the Go race detector"
			} else if strings.Contains(res.output, "[rapid] panic after") || strings.Contains(res.output, "[rapid] flaky test") {
				// a panic inside the harness or a non-deterministic failure is trouble of the machinery
				res.infraErr = "engine panicked or was not deterministic (see output)"
			} else {
				res.infraErr = fmt.Sprintf("worker exited %d without a violation signature", res.exit)
			}
		}
	} else if res.stats == nil {
		res.infraErr = "worker exited 0 but wrote no statistics"
	}
	return res
}

var raceFrameRe = regexp.MustCompile(`github.com/tobgu/qframe[^\s(]*\.[A-Za-z0-9_.()*]+`)

func raceSite(out string) string {
	i := strings.Index(out, "WARNING: DATA RACE")
	if i < 0 {
		return "unknown"
	}
	m := raceFrameRe.FindString(out[i:])
	if m == "" {
		return "unknown"
	}
	return strings.TrimPrefix(m, "github.com/tobgu/qframe")
}

type knownEntry struct {
	Property  string `json:"property"`
	Status    string `json:"status"`
	Signature string `json:"signature"`
	Commit    string `json:"commit,omitempty"`
	Text      string `json:"text"`
}

func loadKnown() []knownEntry {
	b, err := os.ReadFile(filepath.Join(verifDir, "known_findings.json"))
	if err != nil {
		return nil
	}
	var all []knownEntry
	if err := json.Unmarshal(b, &all); err != nil {
		fmt.Fprintf(os.Stderr, "vcheck: known_findings.json does not parse: %v\n", err)
		os.Exit(2)
	}
	return all
}

func cmdRun(args []string) int {
	if len(args) < 1 {
		usage()
	}
	id := args[0]
	tier := os.Getenv("VERIF_TIER")
	for i := 1; i < len(args); i++ {
		if args[i] == "--tier" && i+1 < len(args) {
			tier = args[i+1]
			i++
		}
	}
	if tier != "thorough" {
		tier = "quick"
	}
	cfg, ok := props[id]
	if !ok {
		fmt.Fprintf(os.Stderr, "vcheck: no check for %q\n", id)
		return 2
	}
	installSignalCleanup()
	defer cleanupAll()
	seed := envSeed()
	t0 := time.Now()
	workers := runtime.NumCPU()
	if v, err := strconv.Atoi(os.Getenv("VERIF_WORKERS")); err == nil && v > 0 {
		workers = v
	}
	budget := 900 * time.Second
	if v, err := strconv.Atoi(os.Getenv("VERIF_BUDGET_S")); err == nil && v > 0 {
		budget = time.Duration(v) * time.Second
	}
	fmt.Printf("vcheck: property=%s tier=%s VERIF_SEED=%d workers=%d\n", id, tier, seed, workers)

	sc, err := newScratch(id)
	if err != nil {
		fmt.Fprintln(os.Stderr, "vcheck:", err)
		return 2
	}
	var all []*workerResult
	var phaseInfo []map[string]interface{}
	var seeds []uint64
	infra := false
	for pi, ph := range cfg.Phases {
		if only := os.Getenv("VERIF_PHASE"); only != "" && only != ph.Engine {
			continue // development aid: run one phase only
		}
		if ph.ThoroughOnly && tier != "thorough" {
			continue
		}
		bin, info, err := build(sc, ph)
		info["engine"] = ph.Engine
		info["test"] = ph.Test
		phaseInfo = append(phaseInfo, info)
		if err != nil {
			fmt.Fprintln(os.Stderr, "vcheck:", err)
			return 2
		}
		phaseBudget := budget / time.Duration(len(cfg.Phases))
		pstart := time.Now()
		for round := 0; ; round++ {
			checks := ph.QuickChecks
			timeout := 20 * time.Minute
			if tier == "thorough" {
				checks = ph.ThoroughChecks
				timeout = 2 * time.Hour
			}
			if v, err := strconv.Atoi(os.Getenv("VERIF_CHECKS")); err == nil && v > 0 {
				checks = v
			}
			var wg sync.WaitGroup
			results := make([]*workerResult, workers)
			for w := 0; w < workers; w++ {
				wg.Add(1)
				go func(w int) {
					defer wg.Done()
					s := workerSeed(seed, ph.Engine, ph.Test, round, w)
					results[w] = runWorker(bin, sc, id, tier, ph, round, w, s, checks, timeout, nil)
				}(w)
			}
			wg.Wait()
			stop := false
			for _, r := range results {
				all = append(all, r)
				seeds = append(seeds, r.seed)
				if r.infraErr != "" {
					infra = true
					fmt.Fprintf(os.Stderr, "vcheck: worker r%dw%d (seed %d) of engine %s: %s\n%s\n", r.round, r.w, r.seed, ph.Engine, r.infraErr, tail(r.output, 60))
				}
				if r.signature != "" {
					stop = true
				}
			}
			_ = pi
			if tier != "thorough" || stop || infra || time.Since(pstart) >= phaseBudget {
				break
			}
		}
		if infra {
			break
		}
	}

	// merge
	known := loadKnown()
	ev, viol := merge(cfg, tier, seed, seeds, all, phaseInfo, workers, time.Since(t0), known)
	if err := writeEvidence(id, ev); err != nil {
		fmt.Fprintln(os.Stderr, "vcheck: cannot write evidence:", err)
		return 2
	}
	for _, k := range known {
		if k.Property == id && k.Status == "known" {
			fmt.Printf("KNOWN-FINDING: property=%s %s\n", id, k.Text)
		}
	}
	if infra && len(viol) == 0 {
		fmt.Println("vcheck: machinery trouble, no verdict (exit 2)")
		return 2
	}
	if infra {
		// some worker crashed or timed out, but another one found a replayable
		// violation: that stands on its own
		fmt.Println("vcheck: note: at least one worker ended abnormally (see stderr); the violations below come from the others")
	}
	if len(viol) > 0 {
		for _, v := range viol {
			fmt.Printf("VIOLATION property=%s replay=%s\n", id, v.replay)
			fmt.Printf("  signature=%s seed=%d\n  %s\n", v.sig, v.seed, v.msg)
		}
		return 1
	}
	cov := ev["coverage"].(map[string]interface{})
	fmt.Printf("vcheck: %s held on %v simulated runs (%v distinct non-trivial), %.1fs\n", id, cov["evaluations"], cov["distinct_nontrivial"], time.Since(t0).Seconds())
	return 0
}

type violation struct {
	sig, msg, replay string
	seed             uint64
}

func tail(s string, n int) string {
	lines := strings.Split(strings.TrimRight(s, "\n"), "\n")
	if len(lines) > n {
		lines = lines[len(lines)-n:]
	}
	return strings.Join(lines, "\n")
}

type replayMeta struct {
	Property  string   `json:"property"`
	Engine    string   `json:"engine"`
	Test      string   `json:"test"`
	Tier      string   `json:"tier"`
	Inject    bool     `json:"inject"`
	Fine      bool     `json:"fine,omitempty"`
	Race      bool     `json:"race"`
	Cpu       int      `json:"cpu,omitempty"`
	Seed      uint64   `json:"worker_seed"`
	Signature string   `json:"signature"`
	Message   string   `json:"message"`
	Env       []string `json:"env,omitempty"`
	Kind      string   `json:"kind"` // "rapid-failfile" | "race-seed"
	// Checks is the number of rapid checks the worker was started with: a
	// failure that depends on state carried over from earlier runs of the
	// same process (a package-level cache in the code under test) does not
	// replay from the minimised fail file alone; the fallback re-runs the
	// worker's whole seeded sequence.
	Checks int `json:"checks"`
}

func merge(cfg propCfg, tier string, seed uint64, seeds []uint64, all []*workerResult, phaseInfo []map[string]interface{}, workers int, wall time.Duration, known []knownEntry) (map[string]interface{}, []violation) {
	var evals, nontrivial, steps int64
	faults, configured, probes, extra, knownHits := map[string]int64{}, map[string]int64{}, map[string]int64{}, map[string]int64{}, map[string]int64{}
	distinct := map[uint64]struct{}{}
	var samples []json.RawMessage
	capped := false
	var viol []violation
	seenSig := map[string]bool{}
	os.MkdirAll(filepath.Join(verifDir, "replays"), 0o755)
	for _, r := range all {
		if r.stats != nil {
			evals += r.stats.Evaluations
			nontrivial += r.stats.Nontrivial
			steps += r.stats.SimSteps
			add(faults, r.stats.Faults)
			add(configured, r.stats.Configured)
			add(probes, r.stats.Probes)
			add(extra, r.stats.Extra)
			add(knownHits, r.stats.Known)
			capped = capped || r.stats.SigsCapped
			if len(samples) < 6 && len(r.stats.Samples) > 0 {
				samples = append(samples, r.stats.Samples[0])
			}
		}
		for _, s := range r.sigs {
			distinct[s] = struct{}{}
		}
		if r.signature != "" && r.infraErr == "" {
			if seenSig[r.signature] {
				continue
			}
			seenSig[r.signature] = true
			ph := phaseOf(cfg, r)
			base := filepath.Join(verifDir, "replays", fmt.Sprintf("%s-%s-s%d", cfg.ID, sanitize(r.signature), r.seed))
			replay := base + ".fail"
			meta := replayMeta{Property: cfg.ID, Engine: ph.Engine, Test: ph.Test, Tier: tier, Inject: ph.Inject, Fine: ph.Fine, Race: ph.Race, Cpu: ph.Cpu, Seed: r.seed, Signature: r.signature, Message: r.message, Env: ph.Env, Kind: "rapid-failfile", Checks: r.checks}
			if r.failfile != "" {
				b, _ := os.ReadFile(r.failfile)
				os.WriteFile(replay, b, 0o644)
			} else {
				meta.Kind = "race-seed"
				os.WriteFile(replay, []byte(tail(r.output, 200)+"\n"), 0o644)
			}
			mb, _ := json.MarshalIndent(meta, "", " ")
			os.WriteFile(replay+".meta.json", mb, 0o644)
			if r.trace != nil {
				os.WriteFile(base+".trace.json", r.trace, 0o644)
			}
			viol = append(viol, violation{sig: r.signature, msg: r.message, replay: replay, seed: r.seed})
		}
	}
	if len(samples) == 0 {
		samples = append(samples, json.RawMessage(`"no non-trivial case was reached in this run"`))
	}
	hours := wall.Hours()
	rph := 0.0
	if hours > 0 {
		rph = float64(evals) / hours
	}
	rule := cfg.Rule
	if capped {
		rule += " (signature set capped per worker: distinct_nontrivial is a lower bound)"
	}
	cov := map[string]interface{}{
		"evaluations":         evals,
		"distinct_nontrivial": len(distinct),
		"nontrivial_runs":     nontrivial,
		"rule":                rule,
		"samples":             samples,
		"runs_per_hour":       int64(rph),
		"seeds":               seeds,
		"sim_steps":           steps,
		"simulated_time":      "not applicable: qframe has no clock, timers or sleeps; progress is counted in sim_steps (scheduler steps / Read calls / Write calls / driver calls)",
		"faults_fired":        faults,
		"faults_configured":   configured,
		"probes":              probes,
		"real_components":     cfg.Real,
		"stub_components":     cfg.Stub,
		"workers":             workers,
		"phases":              phaseInfo,
		"known_finding_hits":  knownHits,
		"exhaustive":          false,
	}
	for k, v := range extra {
		if k != "eventlog_digest" { // per-process digest, only meaningful to the determinism self-test
			cov[k] = v
		}
	}
	ev := map[string]interface{}{
		"property_id": cfg.ID,
		"tier":        tier,
		"seed":        seed,
		"level":       cfg.Level,
		"coverage":    cov,
		"assumptions": cfg.Assume,
		"wall_s":      wall.Seconds(),
		"violations":  len(viol),
	}
	return ev, viol
}

func phaseOf(cfg propCfg, r *workerResult) phase {
	if r.ph.Engine != "" {
		return r.ph
	}
	for _, ph := range cfg.Phases {
		suffix := ph.Engine + fmt.Sprintf("-r%dw%d", r.round, r.w)
		if ph.Race {
			suffix += "race"
		}
		if ph.Fine {
			suffix += "fine"
		}
		if strings.HasSuffix(r.dir, suffix) {
			return ph
		}
	}
	return cfg.Phases[0]
}

func sanitize(s string) string {
	var b strings.Builder
	for _, c := range s {
		if (c >= 'a' && c <= 'z') || (c >= 'A' && c <= 'Z') || (c >= '0' && c <= '9') || c == '-' {
			b.WriteRune(c)
		} else {
			b.WriteByte('_')
		}
	}
	out := b.String()
	if len(out) > 60 {
		out = out[:60]
	}
	return out
}

func add(dst, src map[string]int64) {
	for k, v := range src {
		dst[k] += v
	}
}

func writeEvidence(id string, ev map[string]interface{}) error {
	dir := filepath.Join(verifDir, "evidence")
	if err := os.MkdirAll(dir, 0o755); err != nil {
		return err
	}
	b, err := json.MarshalIndent(ev, "", " ")
	if err != nil {
		return err
	}
	return os.WriteFile(filepath.Join(dir, id+".json"), append(b, '\n'), 0o644)
}

func cmdReplay(args []string) int {
	if len(args) < 1 {
		usage()
	}
	path, _ := filepath.Abs(args[0])
	mb, err := os.ReadFile(path + ".meta.json")
	if err != nil {
		fmt.Fprintln(os.Stderr, "vcheck: replay needs", path+".meta.json:", err)
		return 2
	}
	var meta replayMeta
	if err := json.Unmarshal(mb, &meta); err != nil {
		fmt.Fprintln(os.Stderr, "vcheck:", err)
		return 2
	}
	installSignalCleanup()
	defer cleanupAll()
	sc, err := newScratch("replay")
	if err != nil {
		fmt.Fprintln(os.Stderr, "vcheck:", err)
		return 2
	}
	ph := phase{Engine: meta.Engine, Test: meta.Test, Inject: meta.Inject, Fine: meta.Fine, Race: meta.Race, Env: meta.Env, Cpu: meta.Cpu}
	bin, _, err := build(sc, ph)
	if err != nil {
		fmt.Fprintln(os.Stderr, "vcheck:", err)
		return 2
	}
	tries := 1
	var extra []string
	if meta.Kind == "rapid-failfile" {
		extra = []string{"-rapid.failfile", path, "-rapid.nofailfile"}
	} else {
		tries = 20
		extra = []string{"-rapid.nofailfile"}
	}
	for i := 0; i < tries; i++ {
		checks := 1
		if meta.Kind != "rapid-failfile" && meta.Checks > 0 {
			checks = meta.Checks
		}
		r := runWorker(bin, sc, meta.Property, meta.Tier, ph, 0, i, meta.Seed, checks, 30*time.Minute, extra)
		if r.signature != "" {
			same := r.signature == meta.Signature
			fmt.Printf("VIOLATION property=%s replay=%s\n  reproduced signature=%s (recorded %s, identical=%v)\n  %s\n", meta.Property, path, r.signature, meta.Signature, same, r.message)
			return 1
		}
		if r.infraErr != "" {
			fmt.Fprintf(os.Stderr, "vcheck: replay trouble: %s\n%s\n", r.infraErr, tail(r.output, 40))
			return 2
		}
	}
	if meta.Kind == "rapid-failfile" && meta.Checks > 0 {
		// fallback: the whole seeded sequence of the worker (state carried
		// between runs of one process is part of the execution)
		r := runWorker(bin, sc, meta.Property, meta.Tier, ph, 1, 0, meta.Seed, meta.Checks, 60*time.Minute, []string{"-rapid.nofailfile", "-rapid.shrinktime", "1s"})
		if r.signature != "" {
			fmt.Printf("VIOLATION property=%s replay=%s\n  reproduced by re-running the worker's seeded sequence (seed %d, %d checks): signature=%s (recorded %s)\n  %s\n", meta.Property, path, meta.Seed, meta.Checks, r.signature, meta.Signature, r.message)
			return 1
		}
		if r.infraErr != "" {
			fmt.Fprintf(os.Stderr, "vcheck: replay trouble: %s\n%s\n", r.infraErr, tail(r.output, 40))
			return 2
		}
	}
	fmt.Printf("vcheck: replay of %s did not reproduce a violation on the current tree\n", path)
	return 0
}

func cmdSelftest(args []string) int {
	if len(args) < 1 || args[0] != "determinism" {
		usage()
	}
	installSignalCleanup()
	defer cleanupAll()
	ids := args[1:]
	if len(ids) == 0 {
		for id := range props {
			ids = append(ids, id)
		}
		sort.Strings(ids)
	}
	nseeds := 12
	if v, err := strconv.Atoi(os.Getenv("VERIF_SELFTEST_SEEDS")); err == nil && v > 0 {
		nseeds = v
	}
	bad := 0
	for _, id := range ids {
		cfg := props[id]
		sc, err := newScratch("selftest-" + id)
		if err != nil {
			fmt.Fprintln(os.Stderr, err)
			return 2
		}
		for _, ph := range cfg.Phases {
			if ph.Race {
				continue // free-running goroutines: not a deterministic engine, see DESIGN.md §2.4
			}
			bin, _, err := build(sc, ph)
			if err != nil {
				fmt.Fprintln(os.Stderr, "vcheck:", err)
				return 2
			}
			type key struct {
				seed uint64
			}
			digests := map[uint64][]string{}
			var mu sync.Mutex
			var wg sync.WaitGroup
			sem := make(chan struct{}, runtime.NumCPU())
			run := 0
			for s := 0; s < nseeds; s++ {
				seed := workerSeed(envSeed(), ph.Engine, ph.Test, 1000, s)
				for _, procs := range []string{"1", "4", "16"} {
					for rep := 0; rep < 2; rep++ {
						wg.Add(1)
						run++
						go func(seed uint64, procs string, run int) {
							defer wg.Done()
							sem <- struct{}{}
							defer func() { <-sem }()
							p := ph
							p.Env = append(append([]string{}, ph.Env...), "GOMAXPROCS="+procs, "VERIF_EVENTLOG=1")
							r := runWorker(bin, sc, id, "quick", p, 2000+run, 0, seed, 300, 20*time.Minute, []string{"-rapid.nofailfile"})
							d := "no-stats"
							if r.stats != nil {
								d = fmt.Sprintf("evals=%d steps=%d digest=%x exit=%d", r.stats.Evaluations, r.stats.SimSteps, r.stats.Extra["eventlog_digest"], r.exit)
							}
							mu.Lock()
							digests[seed] = append(digests[seed], d)
							mu.Unlock()
						}(seed, procs, run)
					}
				}
			}
			wg.Wait()
			phaseBad := 0
			for seed, ds := range digests {
				for _, d := range ds[1:] {
					if d != ds[0] {
						bad++
						phaseBad++
						fmt.Printf("NON-DETERMINISTIC engine=%s test=%s seed=%d: %q vs %q\n", ph.Engine, ph.Test, seed, ds[0], d)
						break
					}
				}
			}
			fmt.Printf("selftest determinism: %s/%s: %d seeds x 2 runs x GOMAXPROCS{1,4,16}: %d divergent\n", ph.Engine, ph.Test, nseeds, phaseBad)
		}
		os.RemoveAll(sc.dir)
	}
	if bad > 0 {
		return 2
	}
	return 0
}

var _ = io.EOF
