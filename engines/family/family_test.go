// Engine family decides C01 (persistence of every value of a storage-sharing
// family) and the deterministic half of C11 (an operation run concurrently
// with others returns what it returns alone). Caller threads are simulated
// tasks under the cooperative scheduler; the scratch copy of qframe carries a
// scheduling point at every loop, so interleavings are decided by the seed at
// loop granularity.
package family

import (
	"fmt"
	"math/rand"
	"os"
	"runtime/debug"
	"strings"
	"testing"

	"github.com/tobgu/qframe/verifhook"
	"pgregory.net/rapid"

	"verifsim/sim/core"
	"verifsim/sim/fam"
	"verifsim/sim/gen"
)

func TestMain(m *testing.M) {
	core.Init("family")
	if !injected && os.Getenv("VERIF_PROP") != "" && os.Getenv("VERIF_COARSE") == "" {
		fmt.Println("family engine built without yield injection: refusing to give a verdict")
		os.Exit(3)
	}
	code := m.Run()
	core.Flush()
	os.Exit(code)
}

func TestC01(t *testing.T) { rapid.Check(t, func(t *rapid.T) { run(t, "C01") }) }
func TestC11(t *testing.T) { rapid.Check(t, func(t *rapid.T) { run(t, "C11") }) }

func goodHash(key uint64) func([]byte, uint64) uint64 {
	return func(b []byte, seed uint64) uint64 {
		h := key ^ (seed+0x9e3779b97f4a7c15)*0xff51afd7ed558ccd
		for _, c := range b {
			h = (h ^ uint64(c)) * 0x100000001b3
		}
		h ^= h >> 33
		h *= 0xc4ceb9fe1a85ec53
		h ^= h >> 29
		return h
	}
}

type opRecord struct {
	Client int    `json:"client"`
	Desc   string `json:"op"`
	ex     *fam.Exec
	conc   *fam.Outcome
}

type trace struct {
	Bases    []*gen.FrameSpec `json:"base_frames"`
	Build    []string         `json:"build_ops"`
	Programs [][]fam.OpDesc   `json:"programs"`
	Executed []opRecord       `json:"executed_in_schedule_order"`
	Policy   gen.PolicyDesc   `json:"policy"`
	Steps    int64            `json:"steps"`
	Switches int64            `json:"switches"`
	Giant    string           `json:"giant_base,omitempty"`
	Member   string           `json:"member,omitempty"`
	Detail   string           `json:"detail,omitempty"`
	At       string           `json:"at,omitempty"`
	Conc     string           `json:"concurrent_result,omitempty"`
	Alone    string           `json:"alone_result,omitempty"`
}

func safeRun(ex *fam.Exec) (out *fam.Outcome) {
	defer func() {
		if r := recover(); r != nil {
			if fmt.Sprintf("%T", r) == "core.killSentinel" {
				panic(r)
			}
			out = &fam.Outcome{Panic: fmt.Sprint(r) + "\n" + string(debug.Stack()), Canon: "panic: " + fmt.Sprint(r)}
		}
	}()
	return ex.Run()
}

func clip(s string) string {
	if len(s) > 1500 {
		return s[:1500] + "..."
	}
	return s
}

func run(t *rapid.T, prop string) {
	b := fam.Bounds{MaxRows: 16, MaxCols: 4, MaxMembers: 24, HugeOdds: 800, GiantOdds: uint64(core.EnvInt("VERIF_GIANT_ODDS", 3000)), LongNamesOdds: 30}
	maxOps, maxBuild := 4, 5
	if core.Thorough() {
		b = fam.Bounds{MaxRows: 40, MaxCols: 5, MaxMembers: 40, HugeOdds: 500, GiantOdds: uint64(core.EnvInt("VERIF_GIANT_ODDS", 2000)), LongNamesOdds: 30}
		maxOps, maxBuild = 7, 8
	}
	w := fam.NewWorld(t, b)
	tr := &trace{Bases: w.Specs}
	if w.Giant {
		// a giant world: few members, short programs, few whole-family checks
		core.Probe("giant-world")
		b.MaxMembers, maxOps, maxBuild = 8, 2, 2
		tr.Bases = nil
		tr.Giant = fmt.Sprintf("gen.DrawGiantFrame: %d rows (cells derived from the drawn key)", w.Specs[0].NRows)
	}
	for _, m := range w.Members {
		if m.F.Err != nil {
			t.Fatalf("harness: base frame rejected by New: %v", m.F.Err)
		}
	}
	verifhook.SetHash(goodHash(rapid.Uint64().Draw(t, "hashkey")))
	defer verifhook.SetHash(nil)
	rand.Seed(rapid.Int64().Draw(t, "randseed"))
	core.Eval()

	violated := false
	checkI1 := func(when string) bool {
		if m, d := w.CheckAll(); m != nil {
			violated = true
			tr.Member, tr.Detail, tr.At = fmt.Sprintf("m%d = %s", m.ID, m.Origin), d, when
			return false
		}
		return true
	}
	report := func(kind string) {
		what := "value"
		if strings.HasPrefix(tr.Member, "m-1") {
			what = "argument"
		}
		core.Violation(t, "C01:I1:"+kind, fmt.Sprintf("an existing %s changed (%s) %s: %s", what, tr.Member, tr.At, clip(tr.Detail)), tr)
	}
	add := func(ms []*fam.Member) {
		for _, m := range ms {
			if len(w.Members) < b.MaxMembers {
				w.Add(m)
			}
		}
	}

	// ---- phase 1: build a storage-sharing family sequentially ----
	nbuild := rapid.IntRange(0, maxBuild).Draw(t, "nbuild")
	var prev *fam.OpDesc
	for i := 0; i < nbuild; i++ {
		d := fam.DrawSibling(t, prev)
		prev = &d
		ex := fam.Resolve(w, d, -1)
		out := safeRun(ex)
		tr.Build = append(tr.Build, ex.Desc)
		if out.Panic != "" {
			// a panic of an operation run on its own is C10's business, not
			// C01's or C11's: it is a result like any other (and compared as such)
			core.Probe("operation-panicked-sequentially")
		}
		if out.ArgChanged != "" {
			core.Violation(t, "C01:I1:argument-changed", "an operation changed a value passed to it: "+ex.Desc+": "+out.ArgChanged, tr)
			return
		}
		add(out.New)
		if !checkI1("after build op " + ex.Desc) {
			report("sequential")
			return
		}
	}

	// ---- phase 2: clients ----
	minClients, maxClients := 1, 3
	if prop == "C11" {
		minClients, maxClients = 2, 4
	}
	nclients := rapid.IntRange(minClients, maxClients).Draw(t, "nclients")
	stormOdds := 5
	if w.Huge {
		stormOdds = 1
	}
	if nclients > 1 && rapid.IntRange(0, stormOdds).Draw(t, "storm") == 0 {
		tr.Programs = fam.DrawStorm(t, nclients)
		core.Probe("storm-programs")
	} else {
		for c := 0; c < nclients; c++ {
			n := rapid.IntRange(1, maxOps).Draw(t, "nops")
			var prog []fam.OpDesc
			for i := 0; i < n; i++ {
				d := fam.DrawSibling(t, prev)
				prev = &d
				prog = append(prog, d)
			}
			tr.Programs = append(tr.Programs, prog)
		}
	}

	// dry run (sequential, on a throw-away copy of the member list) to learn
	// the number of scheduling points, so that PCT change points can be drawn
	// inside the run; values are immutable, running an operation twice is harmless
	var est int64
	{
		saved := append([]*fam.Member{}, w.Members...)
		s := core.NewSched(core.Sequential{})
		setYieldHook(s.Yield)
		setLockBlocker(s.Block)
		setSpawner(s.Spawn)
		fam.Atomic = s.Atomic
		for c := 0; c < nclients; c++ {
			c := c
			s.Go(fmt.Sprintf("dry%d", c), func() {
				for _, d := range tr.Programs[c] {
					ex := fam.Resolve(w, d, c)
					out := safeRun(ex)
					s.Atomic(func() { add(out.New) })
				}
			})
		}
		s.Run()
		est = s.Steps
		w.Members = saved
		setYieldHook(nil)
		setSpawner(nil)
		fam.Atomic = func(f func()) { f() }
	}
	depth := 3
	if core.Thorough() {
		depth = 6
	}
	pol, desc := gen.DrawPolicy(t, nclients, est+2, depth)
	tr.Policy = desc
	sampleKey := core.NewSplitMix(rapid.Uint64().Draw(t, "samplekey"))

	s := core.NewSched(pol)
	// bounded liveness: a global cap far beyond any legitimate run; when it is
	// hit, the operations in flight are re-run alone under a step counter
	const stepCap = 3_000_000
	s.MaxSteps = stepCap
	setYieldHook(s.Yield)
	// waiting for a (cooperative) lock parks the task; only a task can wait:
	// harness code never calls into qframe while a parked task holds a lock
	// (see locksHeld below), and Sched.Block panics outside a task
	setLockBlocker(s.Block)
	setSpawner(s.Spawn)
	fam.Atomic = s.Atomic
	defer func() {
		setYieldHook(nil)
		setSpawner(nil)
		fam.Atomic = func(f func()) { f() }
	}()
	var records []*opRecord
	inOpSites := map[string]int{}
	inflight := make([]*fam.Exec, nclients)
	opStart := make([]int64, nclients)
	for c := 0; c < nclients; c++ {
		c := c
		var task *core.Task
		task = s.Go(fmt.Sprintf("client%d", c), func() {
			for _, d := range tr.Programs[c] {
				if !injected {
					s.Yield(-1) // operation granularity: the only scheduling points there are
				}
				var ex *fam.Exec
				s.Atomic(func() { ex = fam.Resolve(w, d, c) })
				rec := &opRecord{Client: c, Desc: ex.Desc, ex: ex}
				inflight[c], opStart[c] = ex, task.Steps
				task.InOp++
				rec.conc = safeRun(ex)
				task.InOp--
				inflight[c] = nil
				s.Atomic(func() {
					records = append(records, rec)
					add(rec.conc.New)
				})
			}
		})
	}
	// I1 (b): re-observe the whole family while other clients are inside operations
	midChecks := 0
	s.OnHandback = func(tk *core.Task) {
		if violated {
			return
		}
		busy := 0
		for _, x := range s.Tasks() {
			if x.InOp > 0 {
				busy++
			}
		}
		if busy == 0 || locksHeld() > 0 {
			return // nothing in flight, or a parked task is inside a critical section
		}
		inOpSites[siteName(tk.Site)]++
		if w.Giant && (midChecks >= 6 || (desc.Kind != "pct" && sampleKey.Intn(16) != 0)) {
			return // observing tens of thousands of rows: a handful of times per run
		}
		if desc.Kind == "pct" || sampleKey.Intn(8) == 0 {
			midChecks++
			if !checkI1(fmt.Sprintf("at scheduler step %d, while %d client(s) were inside an operation (last yield at %s)", s.Steps, busy, siteName(tk.Site))) {
				s.MaxSteps = 0 // abandon the run
			}
		}
	}
	ok := s.Run()
	tr.Steps, tr.Switches = s.Steps, s.Switches
	core.Steps(int(s.Steps))
	for _, r := range records {
		tr.Executed = append(tr.Executed, *r)
	}
	if violated {
		report("mid-operation")
		return
	}
	if p := s.FirstPanic(); p != nil {
		core.Violation(t, "C01:panic", fmt.Sprintf("%s panicked outside an operation: %v\n%s", p.Name, p.Panic, p.PanicStack), tr)
		return
	}
	if !ok && s.Overrun && !violated {
		core.Probe("step-cap-reached")
		if prop != "C11" {
			return // termination under concurrency is C11's business
		}
		// which operation was in flight, how much did it consume, and how much
		// does the very same operation need when it runs alone?
		tasks := s.Tasks()
		setYieldHook(nil)
		setSpawner(nil)
		for c, ex := range inflight {
			if ex == nil {
				continue
			}
			consumed := tasks[c].Steps - opStart[c]
			alone := core.NewSched(core.Sequential{})
			alone.MaxSteps = stepCap / 20
			setYieldHook(alone.Yield)
			setLockBlocker(alone.Block)
			setSpawner(alone.Spawn)
			fam.Atomic = alone.Atomic
			alone.Go("alone", func() { safeRun(ex) })
			finished := alone.Run()
			setYieldHook(nil)
			setSpawner(nil)
			fam.Atomic = func(f func()) { f() }
			if finished && consumed > 20*alone.Steps+10000 {
				core.Violation(t, "C11:liveness:no-termination", fmt.Sprintf("%s (client %d) needs %d scheduling points when run alone but had consumed %d without finishing under this schedule", ex.Desc, c, alone.Steps, consumed), tr)
				return
			}
		}
		core.Probe("step-cap-reached-by-long-operations")
		return
	}
	if !ok && s.Deadlock && !violated {
		if prop == "C11" {
			core.Violation(t, "C11:liveness:deadlock", "every remaining client waits for a lock that another waiting client holds", tr)
		}
		return
	}
	if !ok {
		t.Fatalf("harness: run did not finish (deadlock=%v overrun=%v steps=%d)", s.Deadlock, s.Overrun, s.Steps)
	}
	for _, r := range records {
		if r.conc.ArgChanged != "" {
			core.Violation(t, "C01:I1:argument-changed", "an operation changed a value passed to it: "+r.Desc+": "+r.conc.ArgChanged, tr)
			return
		}
		core.Probe("op:" + r.ex.Kind)
		if r.ex.Recv != nil && r.ex.Recv.Kind == fam.KFrame && r.ex.Recv.F.Err != nil {
			core.Probe("operation-on-a-frame-in-error-state")
		}
		if strings.HasPrefix(r.conc.Canon, "Err:") {
			core.Probe("op-result-is-error")
		}
		if r.conc.Panic != "" {
			core.Probe("operation-panicked-under-schedule")
		}
	}
	if !checkI1("after all clients finished") {
		report("after-clients")
		return
	}
	core.ProbeN("mid-operation-family-checks", midChecks)
	core.ProbeN("library-goroutines-run-as-tasks", s.Spawned)
	core.Event(s.Digest(), len(w.Members), len(records))

	// probes and non-triviality
	shares := len(w.Members) > len(w.Specs)
	if nclients == 1 {
		core.Probe("runs-with-1-client")
	} else {
		core.Probe("runs-with-multiple-clients")
	}
	for site, n := range inOpSites {
		switch {
		case strings.Contains(site, "internal/sort"):
			core.ProbeN("switch-inside-sort", n)
		case strings.Contains(site, "filters"):
			core.ProbeN("switch-inside-filter-kernel", n)
		case strings.Contains(site, "internal/grouper"):
			core.ProbeN("switch-inside-grouper", n)
		case strings.Contains(site, "filter.go"):
			core.ProbeN("switch-inside-or/not-merge", n)
		case strings.Contains(site, "expression.go") || strings.Contains(site, "qframe.go"):
			core.ProbeN("switch-inside-qframe.go-loop", n)
		case strings.Contains(site, "strings"):
			core.ProbeN("switch-inside-strings-pkg", n)
		default:
			core.ProbeN("switch-inside-column-kernel", n)
		}
	}
	if prop == "C01" {
		if shares {
			core.Nontrivial(core.Hash64(fmt.Sprint(tr.Build), fmt.Sprint(tr.Programs), s.ScheduleSig()))
			if len(records) <= 3 && nbuild <= 2 {
				core.Sample(map[string]interface{}{"build": tr.Build, "executed": descs(records), "clients": nclients, "policy": desc, "steps": s.Steps, "switches": s.Switches, "members": len(w.Members)})
			}
		}
		return
	}

	// ---- phase 3 (C11): every operation again, alone ----
	if s.SwitchesInOp > 0 {
		core.Nontrivial(core.Hash64(fmt.Sprint(tr.Programs), fmt.Sprint(tr.Build), s.ScheduleSig()))
		core.ProbeN("switches-inside-operations", int(s.SwitchesInOp))
		if len(records) <= 4 && nbuild <= 2 {
			core.Sample(map[string]interface{}{"build": tr.Build, "executed": descs(records), "clients": nclients, "policy": desc, "steps": s.Steps, "switches_inside_operations": s.SwitchesInOp})
		}
	}
	setYieldHook(nil)
	setSpawner(nil)
	fam.Atomic = func(f func()) { f() }
	for _, r := range records {
		alone := safeRun(r.ex)
		if alone.Canon != r.conc.Canon {
			tr.Conc, tr.Alone = clip(r.conc.Canon), clip(alone.Canon)
			if r.conc.Panic != "" && alone.Panic == "" {
				tr.Detail = r.conc.Panic
				core.Violation(t, "C11:I2:panic-only-when-concurrent", fmt.Sprintf("%s (client %d) panicked under the schedule but not when run alone: %s", r.Desc, r.Client, strings.SplitN(r.conc.Panic, "\n", 2)[0]), tr)
				return
			}
			core.Violation(t, "C11:I2:result-differs", fmt.Sprintf("%s (client %d) returned a different result when run concurrently than when run alone", r.Desc, r.Client), tr)
			return
		}
	}
	if !checkI1("after the alone re-runs") {
		report("after-alone-reruns")
		return
	}
	freshCopyCheck(t, w, tr, records)
}

// freshCopyCheck: every operation again, on fresh copies of its operands
// (rebuilt with New from their observations). State that some other
// operation left behind on shared storage (a lazily computed cache on a
// column, say) is not there, so a result that depends on it shows up.
func freshCopyCheck(t *rapid.T, w *fam.World, tr *trace, records []*opRecord) {
	copies := map[*fam.Member]*fam.Member{}
	fresh := func(m *fam.Member) (*fam.Member, bool) {
		if m == nil {
			return nil, true
		}
		if c, ok := copies[m]; ok {
			return c, c != m
		}
		c, ok := m.FreshCopy()
		copies[m] = c
		return c, ok
	}
	for _, r := range records {
		recv, ok1 := fresh(r.ex.Recv)
		other, _ := fresh(r.ex.Other)
		if !ok1 {
			continue
		}
		core.Probe("fresh-copy-comparisons")
		ref := safeRun(fam.ResolveWith(w, r.ex.D, r.Client, recv, other))
		if ref.Canon != r.conc.Canon {
			tr.Conc, tr.Alone = clip(r.conc.Canon), clip(ref.Canon)
			core.Violation(t, "C11:I2:differs-from-fresh-copy", fmt.Sprintf("%s (client %d) returned a different result than the same operation on a fresh copy of its operands (same observable value, untouched storage)", r.Desc, r.Client), tr)
			return
		}
	}
}

func descs(rs []*opRecord) []string {
	var out []string
	for _, r := range rs {
		out = append(out, fmt.Sprintf("client%d: %s", r.Client, r.Desc))
	}
	return out
}
