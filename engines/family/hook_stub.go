//go:build !yieldinject

package family

// Without the injected yields (plain `go vet`, development builds) the
// scheduler can only switch between operations.
func setYieldHook(f func(site int)) {}

func siteName(site int) string { return "none" }

func locksHeld() int { return 0 }

func setLockBlocker(f func(cond func() bool)) {}

func setSpawner(f func(func())) {}

const injected = false
