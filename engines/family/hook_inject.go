//go:build yieldinject

package family

import "github.com/tobgu/qframe/simhook"

// the scratch copy of qframe built by vcheck carries simhook.Yield at every loop
func setYieldHook(f func(site int)) { simhook.Hook = f }

func siteName(site int) string {
	if site >= 0 && site < len(simhook.Sites) {
		return simhook.Sites[site]
	}
	return "explicit"
}

// locksHeld: cooperative locks (replacing sync.Mutex/RWMutex/Once in the
// scratch copy) currently held by some task.
func locksHeld() int { return simhook.Held }

// setLockBlocker installs how a task waits for a cooperative lock.
func setLockBlocker(f func(cond func() bool)) { simhook.Block = f }

// setSpawner installs what a go statement inside qframe becomes.
func setSpawner(f func(func())) { simhook.Spawn = f }

const injected = true
