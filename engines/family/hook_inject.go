//go:build yieldinject

package family

import "github.com/tobgu/qframe/simhook"

// the scratch copy of qframe built by vcheck carries simhook.Yield at every loop
func setYieldHook(f func(site int)) { simhook.Hook = f }

func siteName(site int) string {
	if site >= 0 && site < len(simhook.Sites) {
		return simhook.Sites[site]
	}
	return "explicit"
}

const injected = true
