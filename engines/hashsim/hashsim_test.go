// Engine hashsim decides C04 and C05. The hash function is environment
// nondeterminism (runtime.memhash is keyed per process, non-grouped nulls
// hash to math/rand values), so it sits behind a seam: the simulator picks
// the hash per run, including collision storms and 32-bit truncation clashes
// that the shipped function produces with probability ~2^-32.
package hashsim

import (
	"fmt"
	"math"
	"math/rand"
	"os"
	"sort"
	"strconv"
	"strings"
	"testing"

	"github.com/tobgu/qframe"
	"github.com/tobgu/qframe/config/groupby"
	"github.com/tobgu/qframe/config/newqf"
	"github.com/tobgu/qframe/verifhook"
	"pgregory.net/rapid"

	"verifsim/sim/core"
	"verifsim/sim/gen"
	"verifsim/sim/obs"
)

func TestMain(m *testing.M) {
	core.Init("hashsim")
	code := m.Run()
	core.Flush()
	os.Exit(code)
}

func TestC04(t *testing.T) { rapid.Check(t, func(t *rapid.T) { run(t, "C04") }) }
func TestC05(t *testing.T) { rapid.Check(t, func(t *rapid.T) { run(t, "C05") }) }

// ---- hash flavours (all legal: deterministic functions of (bytes, seed)) ----

type flavour struct {
	Name string `json:"name"`
	Key  uint64 `json:"key"`
	K    int    `json:"k,omitempty"`
}

func mix64(x uint64) uint64 {
	x ^= x >> 33
	x *= 0xff51afd7ed558ccd
	x ^= x >> 33
	x *= 0xc4ceb9fe1a85ec53
	x ^= x >> 33
	return x
}

func goodHash(key uint64) func([]byte, uint64) uint64 {
	return func(b []byte, seed uint64) uint64 {
		h := key ^ mix64(seed+0x9e3779b97f4a7c15)
		for _, c := range b {
			h = (h ^ uint64(c)) * 0x100000001b3
		}
		return mix64(h ^ uint64(len(b))<<56)
	}
}

func (f flavour) fn() func([]byte, uint64) uint64 {
	g := goodHash(f.Key)
	switch f.Name {
	case "real":
		return nil
	case "good":
		return g
	case "mask":
		m := uint64(1)<<uint(f.K) - 1
		return func(b []byte, s uint64) uint64 { return g(b, s) & m }
	case "low32clash":
		return func(b []byte, s uint64) uint64 { h := g(b, s); return h&^0xffffffff | (h>>40)&3 }
	case "seedblind":
		return func(b []byte, s uint64) uint64 { return g(b, 0) }
	case "lenonly":
		return func(b []byte, s uint64) uint64 { return uint64(len(b)) }
	case "high32only":
		return func(b []byte, s uint64) uint64 { return g(b, s) << 32 }
	}
	panic("unknown flavour " + f.Name)
}

func drawFlavour(t *rapid.T) flavour {
	f := flavour{Key: rapid.Uint64().Draw(t, "hashkey")}
	switch rapid.IntRange(0, 7).Draw(t, "flavour") {
	case 0:
		f.Name = "good"
	case 1:
		f.Name = "real"
	case 2, 3:
		f.Name = "mask"
		f.K = rapid.IntRange(0, 4).Draw(t, "maskbits")
	case 4:
		f.Name = "low32clash"
	case 5:
		f.Name = "seedblind"
	case 6:
		f.Name = "lenonly"
	case 7:
		f.Name = "high32only"
	}
	return f
}

// ---- reference model ----

// keyOf is the canonical key of a cell under the equality the property
// states; ok=false means "null/NaN".
func keyOf(typ, cell string) (string, bool) {
	switch typ {
	case "float":
		bits, _ := strconv.ParseUint(cell[2:], 16, 64)
		f := math.Float64frombits(bits)
		if math.IsNaN(f) {
			return "NaN", false
		}
		if f == 0 {
			return "f0", true
		}
		return cell, true
	case "string", "enum":
		if cell == "null" {
			return "null", false
		}
		return cell, true
	}
	return cell, true
}

type class struct {
	key  string
	rows []int // logical row numbers in frame order
}

// partition is the reference model: a map filled in frame order.
func partition(src *obs.Frame, keys []string, groupNull bool) []*class {
	if src.Len == 0 {
		return nil
	}
	var idx []int
	for _, k := range keys {
		idx = append(idx, indexOf(src.Names, k))
	}
	m := map[string]*class{}
	var order []*class
	for r := 0; r < src.Len; r++ {
		var sb strings.Builder
		unique := false
		for _, c := range idx {
			k, ok := keyOf(src.Types[c], src.Cols[c][r])
			if !ok && !groupNull {
				unique = true
			}
			sb.WriteString(k)
			sb.WriteByte(0x1f)
		}
		key := sb.String()
		if unique {
			key = "row#" + strconv.Itoa(r)
		}
		cl := m[key]
		if cl == nil {
			cl = &class{key: key}
			m[key] = cl
			order = append(order, cl)
		}
		cl.rows = append(cl.rows, r)
	}
	return order
}

func indexOf(ss []string, s string) int {
	for i, x := range ss {
		if x == s {
			return i
		}
	}
	return -1
}

type trace struct {
	Frame     *gen.FrameSpec `json:"frame"`
	Scramble  gen.Scramble   `json:"scramble"`
	Keys      []string       `json:"keys"`
	Null      bool           `json:"group_null"`
	NullFirst bool           `json:"null_option_before_columns,omitempty"`
	Hash      flavour        `json:"hash"`
	RandSeed  int64          `json:"rand_seed"`
	ViaCSV    bool           `json:"frame_rebuilt_by_ReadCSV,omitempty"`
	Op        string         `json:"op"`
	Source    *obs.Frame     `json:"source,omitempty"`
	Model     [][]int        `json:"model_classes,omitempty"`
	Got       interface{}    `json:"got,omitempty"`
	Detail    string         `json:"detail,omitempty"`
}

func classesOf(cs []*class) [][]int {
	var out [][]int
	for _, c := range cs {
		out = append(out, c.rows)
	}
	return out
}

func canonPartition(p [][]int) string {
	ss := make([]string, len(p))
	for i, g := range p {
		ss[i] = fmt.Sprint(g)
	}
	sort.Strings(ss)
	return strings.Join(ss, ";")
}

// floatSpecial says what the float key cells contain that only a hash seam can exercise.
func floatSpecial(src *obs.Frame, keys []string) string {
	negZero, posZero, nans := false, false, map[string]bool{}
	for _, k := range keys {
		c := indexOf(src.Names, k)
		if src.Types[c] != "float" {
			continue
		}
		for _, cell := range src.Cols[c] {
			switch cell {
			case "f:8000000000000000":
				negZero = true
			case "f:0":
				posZero = true
			}
			if _, ok := keyOf("float", cell); !ok {
				nans[cell] = true
			}
		}
	}
	s := ""
	if negZero && posZero {
		s += ":pos-and-neg-zero"
	}
	if len(nans) > 1 {
		s += ":two-nan-encodings"
	}
	return s
}

// runHuge: tens of thousands of distinct keys (the table beyond 2^16 slots,
// many growth steps, implementations that switch strategy for large frames).
// Only the good and the real hash are used (a collision storm would be
// quadratic here) and the oracle works on the raw columns.
func runHuge(t *rapid.T, prop string) {
	n := rapid.IntRange(40000, 150000).Draw(t, "hugerows")
	r := core.NewSplitMix(rapid.Uint64().Draw(t, "hugekey"))
	card := n / (1 + r.Intn(3))
	fl := flavour{Name: "good", Key: r.Uint64()}
	if r.Intn(3) == 0 {
		fl.Name = "real"
	}
	null := r.Intn(2) == 0
	core.Eval()
	core.Probe("huge-frame")
	keys := make([]int, n)
	ids := make([]int, n)
	classes := map[int][]int{}
	for i := range keys {
		keys[i] = r.Intn(card) - card/2
		ids[i] = i
		classes[keys[i]] = append(classes[keys[i]], i)
	}
	tr := map[string]interface{}{"rows": n, "key_cardinality_bound": card, "distinct_keys": len(classes), "hash": fl, "group_null": null, "op": prop}
	qf := qframe.New(map[string]interface{}{"k": keys, "__id": ids})
	if qf.Err != nil {
		t.Fatalf("harness: %v", qf.Err)
	}
	rand.Seed(int64(r.Uint64() >> 1))
	verifhook.SetHash(fl.fn())
	defer verifhook.SetHash(nil)
	core.Nontrivial(core.Hash64("huge", n, card, fl.Name, fl.Key, prop))
	core.Event("huge", n, len(classes), prop)
	if prop == "C05" {
		res := qf.Distinct(groupby.Columns("k"), groupby.Null(null))
		if res.Err != nil {
			core.Violation(t, "C05:huge:error", res.Err.Error(), tr)
			return
		}
		kv, idv := res.MustIntView("k"), res.MustIntView("__id")
		if res.Len() != len(classes) {
			core.Violation(t, "C05:D1:row-count:huge", fmt.Sprintf("Distinct over %d rows returned %d rows, there are %d distinct keys", n, res.Len(), len(classes)), tr)
			return
		}
		seen := map[int]bool{}
		for i := 0; i < res.Len(); i++ {
			id, k := idv.ItemAt(i), kv.ItemAt(i)
			if id < 0 || id >= n || keys[id] != k {
				core.Violation(t, "C05:D1:row-content:huge", fmt.Sprintf("returned row (k=%d, __id=%d) is not an input row", k, id), tr)
				return
			}
			if seen[k] {
				core.Violation(t, "C05:D1:duplicate-class:huge", fmt.Sprintf("key %d returned twice", k), tr)
				return
			}
			seen[k] = true
		}
		return
	}
	g := qf.GroupBy(groupby.Columns("k"), groupby.Null(null))
	res := g.Aggregate(qframe.Aggregation{Fn: "count", Column: "__id", As: "n"}, qframe.Aggregation{Fn: "sum", Column: "__id", As: "s"}, qframe.Aggregation{Fn: "min", Column: "__id", As: "first"})
	if res.Err != nil {
		core.Violation(t, "C04:huge:error", res.Err.Error(), tr)
		return
	}
	core.ProbeN("relocations", g.Stats.RelocationCount)
	if res.Len() != len(classes) {
		core.Violation(t, "C04:G2:row-count:huge", fmt.Sprintf("Aggregate over %d rows returned %d rows, there are %d distinct keys", n, res.Len(), len(classes)), tr)
		return
	}
	kv, nv, sv, fv := res.MustIntView("k"), res.MustIntView("n"), res.MustIntView("s"), res.MustIntView("first")
	seen := map[int]bool{}
	for i := 0; i < res.Len(); i++ {
		k := kv.ItemAt(i)
		cl, ok := classes[k]
		if !ok || seen[k] {
			core.Violation(t, "C04:G2:group-identity:huge", fmt.Sprintf("result row for key %d is not a (new) class", k), tr)
			return
		}
		seen[k] = true
		sum := 0
		for _, id := range cl {
			sum += id
		}
		if nv.ItemAt(i) != len(cl) || sv.ItemAt(i) != sum || fv.ItemAt(i) != cl[0] {
			core.Violation(t, "C04:G2:value:huge", fmt.Sprintf("key %d: count/sum/min of __id = %d/%d/%d, the class has %d/%d/%d", k, nv.ItemAt(i), sv.ItemAt(i), fv.ItemAt(i), len(cl), sum, cl[0]), tr)
			return
		}
	}
}

// runLargeEnum: a few thousand rows keyed by ONE enum (or string) column with
// a handful of values and some nulls, both Null settings: the shape for which
// an implementation might bucket by enum code instead of hashing.
func runLargeEnum(t *rapid.T, prop string) {
	n := rapid.IntRange(4096, 9000).Draw(t, "rows")
	r := core.NewSplitMix(rapid.Uint64().Draw(t, "key"))
	nvals := 2 + r.Intn(6)
	null := r.Intn(2) == 0
	asEnum := r.Intn(3) != 0
	vals := make([]string, nvals)
	for i := range vals {
		vals[i] = []string{"", "a", "b", "ab", "A", "\x00", "zz", "q"}[i]
	}
	strs := make([]*string, n)
	ids := make([]int, n)
	nulls := 0
	for i := range strs {
		ids[i] = i
		if r.Intn(400) == 0 {
			nulls++
			continue
		}
		strs[i] = &vals[r.Intn(nvals)]
	}
	core.Eval()
	core.Probe("large-single-enum-key")
	tr := map[string]interface{}{"rows": n, "values": vals, "nulls": nulls, "group_null": null, "enum": asEnum, "op": prop}
	var opts []newqf.ConfigFunc
	if asEnum {
		opts = append(opts, newqf.Enums(map[string][]string{"k": nil}))
	}
	qf := qframe.New(map[string]interface{}{"k": strs, "__id": ids}, opts...)
	if qf.Err != nil {
		t.Fatalf("harness: %v", qf.Err)
	}
	if r.Intn(2) == 0 {
		qf = qf.Filter(qframe.Filter{Column: "__id", Comparator: ">=", Arg: 3}) // a derived frame
	}
	// model
	classes := map[string]int{}
	total := 0
	iv := qf.MustIntView("__id")
	for i := 0; i < iv.Len(); i++ {
		p := strs[iv.ItemAt(i)]
		key := "null"
		if p != nil {
			key = "s:" + *p
		} else if !null {
			key = "null#" + strconv.Itoa(i)
		}
		classes[key]++
		total++
	}
	rand.Seed(int64(r.Uint64() >> 1))
	verifhook.SetHash(goodHash(r.Uint64()))
	defer verifhook.SetHash(nil)
	core.Nontrivial(core.Hash64("large-enum", n, nvals, null, asEnum, prop))
	core.Event("large-enum", n, len(classes), prop)
	if prop == "C05" {
		res := qf.Distinct(groupby.Columns("k"), groupby.Null(null))
		if res.Err != nil || res.Len() != len(classes) {
			core.Violation(t, "C05:D1:row-count:large-enum", fmt.Sprintf("Distinct on one %d-row enum/string key column returned %d rows (err %v), the key equality gives %d classes", total, res.Len(), res.Err, len(classes)), tr)
		}
		return
	}
	res := qf.GroupBy(groupby.Columns("k"), groupby.Null(null)).Aggregate(qframe.Aggregation{Fn: "count", Column: "__id", As: "n"})
	if res.Err != nil || res.Len() != len(classes) {
		core.Violation(t, "C04:G2:row-count:large-enum", fmt.Sprintf("GroupBy on one %d-row enum/string key column gave %d groups (err %v), the key equality gives %d classes", total, res.Len(), res.Err, len(classes)), tr)
		return
	}
	nv := res.MustIntView("n")
	sum := 0
	for i := 0; i < nv.Len(); i++ {
		sum += nv.ItemAt(i)
	}
	if sum != total {
		core.Violation(t, "C04:G2:value:large-enum", fmt.Sprintf("group sizes add up to %d, the frame has %d rows", sum, total), tr)
	}
}

func run(t *rapid.T, prop string) {
	if gen.Rare(t, "huge", 5000) {
		runHuge(t, prop)
		return
	}
	if gen.Rare(t, "largeenum", 1500) {
		runLargeEnum(t, prop)
		return
	}
	b := gen.FrameBounds{MaxCols: 4, MaxRows: 40, WithID: true}
	if core.Thorough() {
		b.MaxRows = 300
	}
	b.SmallDomain = rapid.IntRange(0, 4).Draw(t, "smalldomain") != 0
	if !core.Thorough() && gen.Rare(t, "bigframe", 60) {
		b.MinRows, b.MaxRows = 100, 700 // several growth steps of the table, also in the quick tier
	}
	if gen.Rare(t, "over1024", 300) {
		// beyond a thousand rows with several keys of mixed types (strategies
		// that only switch on for "large" frames)
		// (small value domains for large groups; now and then the wide domains,
		// where sums depend on the order of addition)
		b.MinRows, b.MaxRows, b.MinCols, b.SmallDomain = 1024, 1300, 3, rapid.IntRange(0, 2).Draw(t, "bigsmall") != 0
		core.Probe("over-1024-rows")
	}
	if rapid.IntRange(0, 5).Draw(t, "sumfloats") == 0 {
		// float cells whose sum depends on the order in which they are added, in
		// groups of a few dozen rows and more
		b.SumFloats = true
		if b.MinRows < 33 {
			b.MinRows = 33
		}
		if b.MaxRows < 80 {
			b.MaxRows = 80
		}
	}
	b.Clustered = b.MaxRows >= 80 && rapid.IntRange(0, 2).Draw(t, "clustered") == 0
	fs := gen.DrawFrame(t, b)
	scr := gen.DrawLayoutScramble(t, fs)
	tr := &trace{Frame: fs, Scramble: scr}
	// key columns: any subset and order of the data columns
	var dataCols []string
	for _, c := range fs.Cols {
		if c.Name != "__id" {
			dataCols = append(dataCols, c.Name)
		}
	}
	nk := rapid.IntRange(0, len(dataCols)).Draw(t, "nkeys")
	perm := rapid.Permutation(dataCols).Draw(t, "keyperm")
	tr.Keys = perm[:nk]
	// now and then exactly the columns the frame was last sorted on
	for i := len(scr.Ops) - 1; i >= 0; i-- {
		if op := scr.Ops[i]; op.Kind == "sort" && op.Col2 != "" && op.Col2 != op.Col && op.Col != "__id" && op.Col2 != "__id" {
			if rapid.IntRange(0, 2).Draw(t, "sortkeys") == 0 {
				tr.Keys = []string{op.Col, op.Col2}
				if rapid.Bool().Draw(t, "sortkeysrev") {
					tr.Keys = []string{op.Col2, op.Col}
				}
			}
			break
		}
	}
	tr.Null = rapid.Bool().Draw(t, "groupnull")
	tr.NullFirst = rapid.Bool().Draw(t, "nullfirst")
	tr.Hash = drawFlavour(t)
	tr.RandSeed = rapid.Int64().Draw(t, "randseed")
	viaCSV := rapid.IntRange(0, 5).Draw(t, "viacsv")
	core.Eval()

	base := fs.Build()
	if base.Err != nil {
		t.Fatalf("harness: generated frame rejected by New: %v", base.Err)
	}
	qf := scr.Apply(base)
	if qf.Err != nil {
		t.Fatalf("harness: scramble failed: %v", qf.Err)
	}
	if viaCSV <= 1 {
		// the same table built by the CSV reader (the model below starts from
		// what this frame shows, whichever way it was built)
		if back, ok := gen.ViaCSV(qf, viaCSV == 1); ok {
			qf = back
			tr.ViaCSV = true
			core.Probe("frame-built-by-ReadCSV")
		}
	}
	src := obs.Of(qf)
	tr.Source = src
	ids := make([]int, src.Len)
	idOfRow := src.Col("__id")
	for r := range ids {
		ids[r], _ = strconv.Atoi(idOfRow[r][2:])
	}
	rowOfID := map[int]int{}
	for r, id := range ids {
		rowOfID[id] = r
	}
	model := partition(src, tr.Keys, tr.Null)
	tr.Model = classesOf(model)

	rand.Seed(tr.RandSeed)
	verifhook.SetHash(tr.Hash.fn())
	defer verifhook.SetHash(nil)
	specialCols := tr.Keys
	if len(specialCols) == 0 && prop == "C05" {
		specialCols = dataCols
	}
	special := floatSpecial(src, specialCols)

	switch prop {
	case "C04":
		checkGroupBy(t, tr, qf, src, model, rowOfID, special)
	case "C05":
		checkDistinct(t, tr, qf, src, model, rowOfID, special)
	}
}

// opts: the options in either order (each sets what it is about, nothing else).
func opts(tr *trace) []groupby.ConfigFunc {
	if tr.NullFirst {
		return []groupby.ConfigFunc{groupby.Null(tr.Null), groupby.Columns(tr.Keys...)}
	}
	return []groupby.ConfigFunc{groupby.Columns(tr.Keys...), groupby.Null(tr.Null)}
}

func nontrivial(tr *trace, model []*class, stats qframe.GroupStats, src *obs.Frame) {
	core.ProbeN("insert-collisions", stats.InsertCollisions)
	core.ProbeN("relocations", stats.RelocationCount)
	core.ProbeN("relocation-collisions", stats.RelocationCollisions)
	core.Probe("flavour-" + tr.Hash.Name)
	if len(model) >= 2 && (stats.InsertCollisions > 0 || stats.RelocationCount > 0) {
		core.Nontrivial(core.Hash64(fmt.Sprint(tr.Model), tr.Hash.Name, tr.Hash.K, stats.InsertCollisions, stats.RelocationCount, stats.RelocationCollisions, fmt.Sprint(tr.Keys), tr.Null))
		if src.Len <= 8 {
			core.Sample(map[string]interface{}{"keys": tr.Keys, "group_null": tr.Null, "hash": tr.Hash, "rows": src.Len, "classes": tr.Model, "insert_collisions": stats.InsertCollisions, "relocations": stats.RelocationCount})
		}
	}
}

func checkGroupBy(t *rapid.T, tr *trace, qf qframe.QFrame, src *obs.Frame, model []*class, rowOfID map[int]int, special string) {
	tr.Op = "GroupBy"
	var g qframe.Grouper
	var pan interface{}
	func() {
		defer func() { pan = recover() }()
		g = qf.GroupBy(opts(tr)...)
	}()
	if pan != nil {
		core.Violation(t, "C04:panic:groupby", fmt.Sprint("GroupBy panicked: ", pan), tr)
		return
	}
	if g.Err != nil {
		core.Violation(t, "C04:groupby-error", "GroupBy failed: "+g.Err.Error(), tr)
		return
	}
	nontrivial(tr, model, g.Stats, src)
	if tr.Hash.Name == "real" {
		// memhash is keyed per process: collision counts are not replayable
		// across processes for this flavour (DESIGN.md §6), only the outcome is
		core.Event(fmt.Sprint(tr.Model), tr.Hash.Name)
	} else {
		core.Event(fmt.Sprint(tr.Model), tr.Hash.Name, g.Stats.InsertCollisions, g.Stats.RelocationCount)
	}

	// G1: QFrames() = exactly the model's classes, each in frame order
	frames, err := g.QFrames()
	if err != nil {
		core.Violation(t, "C04:qframes-error", err.Error(), tr)
		return
	}
	var got [][]int
	for _, f := range frames {
		o := obs.Of(f)
		if o.Bad != "" || o.HasErr {
			core.Violation(t, "C04:G1:unobservable-group", o.Bad+o.Err, tr)
			return
		}
		var rows []int
		for r := 0; r < o.Len; r++ {
			id, _ := strconv.Atoi(o.Col("__id")[r][2:])
			row, ok := rowOfID[id]
			if !ok {
				core.Violation(t, "C04:G1:foreign-row", fmt.Sprintf("group contains a row (__id=%d) that is not in the frame", id), tr)
				return
			}
			if o.Row(r) != src.Row(row) {
				core.Violation(t, "C04:G1:row-content", fmt.Sprintf("group row with __id=%d differs from the frame's row", id), tr)
				return
			}
			rows = append(rows, row)
		}
		got = append(got, rows)
	}
	tr.Got = got
	if canonPartition(got) != canonPartition(tr.Model) {
		core.Violation(t, "C04:G1:partition"+special, fmt.Sprintf("QFrames() gives %d groups, the key equality gives %d classes (or their members/order differ)", len(got), len(model)), tr)
		return
	}

	// G2: Aggregate
	tr.Op = "Aggregate"
	var aggs []qframe.Aggregation
	type expect struct {
		as, col, typ, fn string
	}
	var exps []expect
	var recID [][]int
	aggs = append(aggs, qframe.Aggregation{Column: "__id", As: "__first", Fn: func(xs []int) int {
		recID = append(recID, append([]int{}, xs...))
		if len(xs) == 0 {
			return -1
		}
		return xs[0]
	}})
	recorded := map[string]*rec{}
	n := 0
	isKey := map[string]bool{}
	for _, k := range tr.Keys {
		isKey[k] = true
	}
	for c, name := range src.Names {
		if isKey[name] || name == "__id" {
			continue
		}
		typ := src.Types[c]
		var fns []string
		switch typ {
		case "int":
			fns = []string{"sum", "min", "max", "count", "user"}
		case "float":
			fns = []string{"sum", "min", "max", "avg", "count", "user"}
		case "bool":
			fns = []string{"majority", "count", "user"}
		case "string", "enum":
			fns = []string{"count", "user"}
		}
		for _, fn := range fns {
			// any name the caller likes, also ones New would not take for a column
			as := []string{"a", "a", "a", "$a", "'a'", "a b", "\"a\"", "é"}[(n+len(tr.Keys))%8] + strconv.Itoa(n)
			if n%8 == 4 {
				as += "'"
			}
			n++
			e := expect{as: as, col: name, typ: typ, fn: fn}
			exps = append(exps, e)
			var f interface{} = fn
			if fn == "user" {
				r := &rec{}
				recorded[as] = r
				// The user functions are pure (the result depends on the slice
				// only, never on how often or in which order they are called) and
				// not the identity on one-element slices; what they were handed
				// is recorded on the side.
				switch typ {
				case "int":
					f = func(xs []int) int { r.ints = append(r.ints, append([]int{}, xs...)); return userInt(xs) }
				case "float":
					f = func(xs []float64) float64 {
						r.floats = append(r.floats, append([]float64{}, xs...))
						return userFloat(xs)
					}
				case "bool":
					f = func(xs []bool) bool { r.bools = append(r.bools, append([]bool{}, xs...)); return userBool(xs) }
				default:
					f = func(xs []*string) *string {
						var cp []string
						for _, p := range xs {
							cp = append(cp, obs.StrText(p))
						}
						r.strs = append(r.strs, cp)
						s := userStr(cp)
						return &s
					}
				}
			}
			aggs = append(aggs, qframe.Aggregation{Column: name, As: as, Fn: f})
		}
	}
	var res qframe.QFrame
	func() {
		defer func() { pan = recover() }()
		res = g.Aggregate(aggs...)
	}()
	if pan != nil {
		core.Violation(t, "C04:panic:aggregate", fmt.Sprint("Aggregate panicked: ", pan), tr)
		return
	}
	ro := obs.Of(res)
	tr.Got = ro
	if ro.HasErr || ro.Bad != "" {
		core.Violation(t, "C04:G2:aggregate-error", "Aggregate failed: "+ro.Err+ro.Bad, tr)
		return
	}
	if ro.Len != len(model) {
		core.Violation(t, "C04:G2:row-count"+special, fmt.Sprintf("Aggregate returned %d rows for %d classes", ro.Len, len(model)), tr)
		return
	}
	// schema: key columns first, in the order given, then the aggregations
	wantNames := append(append([]string{}, tr.Keys...), "__first")
	for _, e := range exps {
		wantNames = append(wantNames, e.as)
	}
	if fmt.Sprintf("%q", ro.Names) != fmt.Sprintf("%q", wantNames) {
		core.Violation(t, "C04:G2:schema", fmt.Sprintf("Aggregate columns %q, expected %q", ro.Names, wantNames), tr)
		return
	}
	gotIDs := map[string]bool{}
	for _, ids := range recID {
		gotIDs[fmt.Sprint(ids)] = true
	}
	firstOf := map[int]*class{}
	for _, cl := range model {
		firstOf[cl.rows[0]] = cl
	}
	seen := map[*class]bool{}
	for r := 0; r < ro.Len; r++ {
		id, _ := strconv.Atoi(ro.Col("__first")[r][2:])
		row, ok := rowOfID[id]
		cl := firstOf[row]
		if !ok || cl == nil || seen[cl] {
			core.Violation(t, "C04:G2:group-identity"+special, fmt.Sprintf("result row %d summarises a group starting at __id=%d, which is not the first row of an (unseen) class", r, id), tr)
			return
		}
		seen[cl] = true
		// the recording function saw exactly the class's ids in frame order
		var wantIDs []int
		for _, rr := range cl.rows {
			idv, _ := strconv.Atoi(src.Col("__id")[rr][2:])
			wantIDs = append(wantIDs, idv)
		}
		if len(wantIDs) > 1 && !gotIDs[fmt.Sprint(wantIDs)] {
			core.Violation(t, "C04:G2:group-values", fmt.Sprintf("no call of the aggregation function received the class's __id values %v in frame order (calls received %v)", wantIDs, recID), tr)
			return
		}
		// key cells
		for _, k := range tr.Keys {
			c := indexOf(src.Names, k)
			wk, _ := keyOf(src.Types[c], src.Cols[c][cl.rows[0]])
			gk, _ := keyOf(ro.Types[indexOf(ro.Names, k)], ro.Col(k)[r])
			if wk != gk {
				core.Violation(t, "C04:G2:key-cell", fmt.Sprintf("result row %d: key column %q holds %s, the class key is %s", r, k, ro.Col(k)[r], src.Cols[c][cl.rows[0]]), tr)
				return
			}
		}
		for _, e := range exps {
			c := indexOf(src.Names, e.col)
			var cells []string
			for _, rr := range cl.rows {
				cells = append(cells, src.Cols[c][rr])
			}
			got := ro.Col(e.as)[r]
			if msg := checkAgg(e.typ, e.fn, cells, got, recorded[e.as], r); msg != "" {
				core.Violation(t, "C04:G2:value:"+e.typ+":"+e.fn, fmt.Sprintf("result row %d, %s(%s) over %v: %s", r, e.fn, e.col, cells, msg), tr)
				return
			}
		}
	}
}

// rec is what a recording user aggregation function was handed, per call.
type rec struct {
	ints   [][]int
	floats [][]float64
	bools  [][]bool
	strs   [][]string
}

func fl(cell string) float64 {
	bits, _ := strconv.ParseUint(cell[2:], 16, 64)
	return math.Float64frombits(bits)
}

func sameFloat(a, b float64) bool {
	return a == b || (math.IsNaN(a) && math.IsNaN(b))
}

// checkAgg compares one aggregate with the fold of the class's values in frame order.
func checkAgg(typ, fn string, cells []string, got string, r interface{}, row int) string {
	if fn == "count" {
		if got != "i:"+strconv.Itoa(len(cells)) {
			return fmt.Sprintf("count is %s, the class has %d rows", got, len(cells))
		}
		return ""
	}
	switch typ {
	case "int":
		var xs []int
		for _, c := range cells {
			v, _ := strconv.Atoi(c[2:])
			xs = append(xs, v)
		}
		var want int
		switch fn {
		case "sum":
			for _, x := range xs {
				want += x
			}
		case "min":
			want = xs[0]
			for _, x := range xs {
				if x < want {
					want = x
				}
			}
		case "max":
			want = xs[0]
			for _, x := range xs {
				if x > want {
					want = x
				}
			}
		case "user":
			want = userInt(xs)
		}
		if got != "i:"+strconv.Itoa(want) {
			return fmt.Sprintf("got %s, want %d", got, want)
		}
	case "float":
		var xs []float64
		for _, c := range cells {
			xs = append(xs, fl(c))
		}
		var want float64
		switch fn {
		case "sum", "avg":
			for _, x := range xs {
				want += x
			}
			if fn == "avg" {
				want /= float64(len(xs))
			}
		case "min":
			want = xs[0]
			for _, x := range xs[1:] {
				want = math.Min(want, x)
			}
		case "max":
			want = xs[0]
			for _, x := range xs[1:] {
				want = math.Max(want, x)
			}
		case "user":
			want = userFloat(xs)
		}
		if !sameFloat(fl(got), want) {
			return fmt.Sprintf("got %v, want %v", fl(got), want)
		}
	case "bool":
		tc, fc := 0, 0
		var xs []bool
		for _, c := range cells {
			v := c == "b:true"
			xs = append(xs, v)
			if v {
				tc++
			} else {
				fc++
			}
		}
		want := tc > fc
		if fn == "user" {
			want = userBool(xs)
		}
		if got != "b:"+strconv.FormatBool(want) {
			return fmt.Sprintf("got %s, want %v", got, want)
		}
	default:
		if want := "s:" + strconv.Quote(userStr(cells)); got != want {
			return fmt.Sprintf("got %s, want %s", got, want)
		}
	}
	// the function must have been handed exactly the class's values, in frame
	// order, in (at least) one of its calls
	if fn == "user" {
		rc := r.(*rec)
		want := fmt.Sprint(cells)
		found := false
		switch typ {
		case "int":
			for _, xs := range rc.ints {
				var cs []string
				for _, x := range xs {
					cs = append(cs, "i:"+strconv.Itoa(x))
				}
				found = found || fmt.Sprint(cs) == want
			}
		case "float":
			for _, xs := range rc.floats {
				var cs []string
				for _, x := range xs {
					cs = append(cs, obs.FloatText(x))
				}
				found = found || fmt.Sprint(cs) == want
			}
		case "bool":
			for _, xs := range rc.bools {
				var cs []string
				for _, x := range xs {
					cs = append(cs, "b:"+strconv.FormatBool(x))
				}
				found = found || fmt.Sprint(cs) == want
			}
		default:
			for _, cs := range rc.strs {
				found = found || fmt.Sprint(cs) == want
			}
		}
		if !found && len(cells) > 1 {
			return "no call of the user function received exactly the class's values in frame order"
		}
	}
	return ""
}

// pure user aggregation functions (not the identity on singletons)
func userInt(xs []int) int {
	r := 1000 * len(xs)
	for i, x := range xs {
		r += (x%97)*(i+1) + x%7
	}
	return r
}

func userFloat(xs []float64) float64 {
	r := float64(len(xs)) * 0.5
	for _, x := range xs {
		r += x * 0.25
	}
	return r
}

func userBool(xs []bool) bool {
	n := 0
	for i, x := range xs {
		if x {
			n += i + 1
		}
	}
	return (n+len(xs))%2 == 0
}

func userStr(cells []string) string { return strconv.Itoa(len(cells)) + ":" + strings.Join(cells, "+") }

func checkDistinct(t *rapid.T, tr *trace, qf qframe.QFrame, src *obs.Frame, model []*class, rowOfID map[int]int, special string) {
	tr.Op = "Distinct"
	allCols := len(tr.Keys) == 0
	in := qf
	if allCols {
		// "all columns when none are given": the hidden id would make every
		// row distinct, so it is dropped and rows are matched by content
		in = qf.Drop("__id")
		var keys []string
		for _, n := range src.Names {
			if n != "__id" {
				keys = append(keys, n)
			}
		}
		model = partition(src, keys, tr.Null)
		tr.Model = classesOf(model)
	}
	var res qframe.QFrame
	var pan interface{}
	func() {
		defer func() { pan = recover() }()
		if allCols {
			res = in.Distinct(groupby.Null(tr.Null))
		} else {
			res = in.Distinct(opts(tr)...)
		}
	}()
	if pan != nil {
		core.Violation(t, "C05:panic:distinct", fmt.Sprint("Distinct panicked: ", pan), tr)
		return
	}
	// a second Distinct directly on the result, same columns, possibly the
	// other Null setting: the classes of the intermediate frame are those of
	// the coarser of the two settings
	chained := rapid.IntRange(0, 3).Draw(t, "chain") == 0
	if chained && pan == nil {
		null2 := rapid.Bool().Draw(t, "chainnull")
		tr.Op = fmt.Sprintf("Distinct(null=%v).Distinct(null=%v)", tr.Null, null2)
		func() {
			defer func() { pan = recover() }()
			if allCols {
				res = res.Distinct(groupby.Null(null2))
			} else {
				res = res.Distinct(groupby.Columns(tr.Keys...), groupby.Null(null2))
			}
		}()
		if pan != nil {
			core.Violation(t, "C05:panic:distinct", fmt.Sprint("chained Distinct panicked: ", pan), tr)
			return
		}
		if null2 && !tr.Null {
			keys := tr.Keys
			if allCols {
				keys = nil
				for _, n := range src.Names {
					if n != "__id" {
						keys = append(keys, n)
					}
				}
			}
			model = partition(src, keys, true)
			tr.Model = classesOf(model)
		}
		core.Probe("chained-distinct")
	}
	ro := obs.Of(res)
	tr.Got = ro
	if ro.HasErr || ro.Bad != "" {
		core.Violation(t, "C05:distinct-error", "Distinct failed: "+ro.Err+ro.Bad, tr)
		return
	}
	core.Probe("flavour-" + tr.Hash.Name)
	core.Event(fmt.Sprint(tr.Model), tr.Hash.Name, ro.Len)
	if len(model) >= 2 && len(model) < src.Len {
		core.Nontrivial(core.Hash64(fmt.Sprint(tr.Model), tr.Hash.Name, tr.Hash.K, fmt.Sprint(tr.Keys), tr.Null, allCols))
		if src.Len <= 8 {
			core.Sample(map[string]interface{}{"keys": tr.Keys, "all_columns": allCols, "group_null": tr.Null, "hash": tr.Hash, "rows": src.Len, "classes": tr.Model})
		}
	}
	if ro.Len != len(model) {
		core.Violation(t, "C05:D1:row-count"+special, fmt.Sprintf("Distinct returned %d rows, the key equality gives %d classes", ro.Len, len(model)), tr)
		return
	}
	classOfRow := map[int]*class{}
	for _, cl := range model {
		for _, r := range cl.rows {
			classOfRow[r] = cl
		}
	}
	seen := map[*class]bool{}
	if !allCols {
		for r := 0; r < ro.Len; r++ {
			id, _ := strconv.Atoi(ro.Col("__id")[r][2:])
			row, ok := rowOfID[id]
			if !ok {
				core.Violation(t, "C05:D1:foreign-row", fmt.Sprintf("returned row has __id=%d, not an input row", id), tr)
				return
			}
			if ro.Row(r) != src.Row(row) {
				core.Violation(t, "C05:D1:row-content", fmt.Sprintf("returned row with __id=%d differs from the input row: %s vs %s", id, ro.Row(r), src.Row(row)), tr)
				return
			}
			cl := classOfRow[row]
			if seen[cl] {
				core.Violation(t, "C05:D1:duplicate-class"+special, fmt.Sprintf("two returned rows carry the same key (class %v)", cl.rows), tr)
				return
			}
			seen[cl] = true
		}
		return
	}
	// all-columns case: match by content
	srcNoID := obs.Of(in)
	rowsByContent := map[string][]int{}
	for r := 0; r < srcNoID.Len; r++ {
		rowsByContent[srcNoID.Row(r)] = append(rowsByContent[srcNoID.Row(r)], r)
	}
	for r := 0; r < ro.Len; r++ {
		cands := rowsByContent[ro.Row(r)]
		if len(cands) == 0 {
			core.Violation(t, "C05:D1:foreign-row", "returned row is not an input row: "+ro.Row(r), tr)
			return
		}
		var cl *class
		for _, cand := range cands {
			if c := classOfRow[cand]; !seen[c] {
				cl = c
				break
			}
		}
		if cl == nil {
			core.Violation(t, "C05:D1:duplicate-class"+special, fmt.Sprintf("more returned rows with content %s than classes with that key", ro.Row(r)), tr)
			return
		}
		seen[cl] = true
	}
}
