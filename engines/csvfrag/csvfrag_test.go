// Engine csvfrag decides C12: ReadCSV under every fragmentation of the byte
// stream. The io.Reader is the seam; SimReader owns read sizes, EOF style and
// (through the verif hook) the scan-buffer capacity.
package csvfrag

import (
	"errors"
	"fmt"
	"os"
	"sort"
	"strconv"
	"strings"
	"testing"

	"github.com/tobgu/qframe"
	"github.com/tobgu/qframe/config/csv"
	"github.com/tobgu/qframe/verifhook"
	"pgregory.net/rapid"

	"verifsim/sim/core"
	"verifsim/sim/gen"
	"verifsim/sim/obs"
	"verifsim/sim/simio"
)

func TestMain(m *testing.M) {
	core.Init("csvfrag")
	code := m.Run()
	core.Flush()
	os.Exit(code)
}

func TestC12(t *testing.T) {
	rapid.Check(t, runC12)
}

// TestC12Race runs under the race detector: documents large enough (thousands
// of rows, several enum columns with declared values) for an implementation to
// be tempted to convert columns in parallel. ReadCSV may use goroutines of its
// own only if the result stays a function of the bytes: any report of the
// detector, and any difference between two deliveries of the same document,
// is a violation.
func TestC12Race(t *testing.T) {
	rapid.Check(t, func(t *rapid.T) {
		nrows := rapid.IntRange(4096, 17000).Draw(t, "rows")
		ncols := rapid.IntRange(4, 6).Draw(t, "cols")
		r := core.NewSplitMix(rapid.Uint64().Draw(t, "key"))
		vals := []string{"a", "b", "c d", "e\"f", ""}
		typs := map[string]string{}
		enums := map[string][]string{}
		var sb []byte
		for c := 0; c < ncols; c++ {
			name := "c" + strconv.Itoa(c)
			if c > 0 {
				sb = append(sb, ',')
			}
			sb = append(sb, name...)
			if c%3 != 2 {
				typs[name] = "enum"
				enums[name] = vals
			}
		}
		sb = append(sb, '\n')
		for i := 0; i < nrows; i++ {
			for c := 0; c < ncols; c++ {
				if c > 0 {
					sb = append(sb, ',')
				}
				if c%3 == 2 {
					sb = strconv.AppendInt(sb, int64(r.Intn(1000)), 10)
				} else {
					v := vals[r.Intn(len(vals))]
					sb = append(sb, '"')
					sb = append(sb, strings.ReplaceAll(v, "\"", "\"\"")...)
					sb = append(sb, '"')
				}
			}
			sb = append(sb, '\n')
		}
		core.Eval()
		core.Probe("large-typed-documents")
		read := func(sizes []int) *obs.Frame {
			ev := map[string][]string{}
			for k, v := range enums {
				ev[k] = v
			}
			rd := &simio.SimReader{Doc: sb, Plan: simio.ReadPlan{Sizes: sizes}}
			return obs.Of(qframe.ReadCSV(rd, csv.Types(typs), csv.EnumValues(ev)))
		}
		a := read(nil)
		b := read([]int{4096, 1, 977})
		core.Steps(2)
		core.Nontrivial(core.Hash64(sb))
		core.Sample(map[string]interface{}{"rows": nrows, "cols": ncols, "enum_columns": len(typs), "bytes": len(sb)})
		if a.HasErr || a.Len != nrows {
			core.Violation(t, "C12:R2:large-typed-document", fmt.Sprintf("a %d-row document with declared enum columns gave Len=%d Err=%q", nrows, a.Len, a.Err), map[string]interface{}{"rows": nrows, "cols": ncols})
			return
		}
		if d := obs.Diff(a, b); d != "" {
			core.Violation(t, "C12:R1:fragmentation-dependent", "two deliveries of the same large document differ: "+d, map[string]interface{}{"rows": nrows, "cols": ncols})
		}
	})
}

type plan struct {
	// ReaderKind: 0 plain io.Reader, 1 also io.WriterTo, 2 also io.ByteReader,
	// 3 also io.Seeker (handed over positioned behind a preamble)
	ReaderKind int            `json:"reader_kind"`
	Style      string         `json:"style"`
	Read       simio.ReadPlan `json:"read"`
	BufCap     int            `json:"buf_cap"`
}

var bufCaps = []int{0, 0, 1, 2, 3, 4, 8, 16, 64}

func interesting(doc []byte, delim byte) []int {
	var out []int
	for i, c := range doc {
		if c == '"' || c == delim || c == '\n' || c == '\r' {
			out = append(out, i)
		}
	}
	return out
}

func drawPlan(t *rapid.T, doc []byte, delim byte) plan {
	p := plan{}
	p.BufCap = bufCaps[rapid.IntRange(0, len(bufCaps)-1).Draw(t, "bufcap")]
	p.Read.EOFWithData = rapid.Bool().Draw(t, "eofwithdata")
	p.ReaderKind = rapid.IntRange(0, 3).Draw(t, "readerkind")
	ints := interesting(doc, delim)
	style := rapid.IntRange(0, 6).Draw(t, "style")
	if len(ints) == 0 && style >= 3 && style <= 5 {
		style = 1
	}
	switch style {
	case 0:
		p.Style = "whole"
	case 1:
		k := []int{1, 2, 3, 7}[rapid.IntRange(0, 3).Draw(t, "k")]
		p.Style = "const-" + strconv.Itoa(k)
		p.Read.Sizes = []int{k}
	case 2:
		m := []int{2, 4, 16, 64}[rapid.IntRange(0, 3).Draw(t, "m")]
		p.Style = "random-" + strconv.Itoa(m)
		r := core.NewSplitMix(rapid.Uint64().Draw(t, "sizekey"))
		for i := 0; i < 61; i++ {
			p.Read.Sizes = append(p.Read.Sizes, 1+r.Intn(m))
		}
	case 3:
		p.Style = "boundary"
		n := rapid.IntRange(1, 4).Draw(t, "ncuts")
		set := map[int]bool{}
		for i := 0; i < n; i++ {
			o := ints[rapid.IntRange(0, len(ints)-1).Draw(t, "at")] + rapid.IntRange(-1, 2).Draw(t, "d")
			if o > 0 && o < len(doc) {
				set[o] = true
			}
		}
		for o := range set {
			p.Read.Cuts = append(p.Read.Cuts, o)
		}
		sort.Ints(p.Read.Cuts)
	case 4:
		p.Style = "window"
		o := ints[rapid.IntRange(0, len(ints)-1).Draw(t, "at")]
		w := rapid.IntRange(1, 6).Draw(t, "w")
		for i := o - w; i <= o+w+1; i++ {
			if i > 0 && i < len(doc) {
				p.Read.Cuts = append(p.Read.Cuts, i)
			}
		}
	case 5:
		p.Style = "all-boundaries"
		set := map[int]bool{}
		for _, o := range ints {
			for d := 0; d <= 1; d++ {
				if o+d > 0 && o+d < len(doc) {
					set[o+d] = true
				}
			}
		}
		for o := range set {
			p.Read.Cuts = append(p.Read.Cuts, o)
		}
		sort.Ints(p.Read.Cuts)
	case 6:
		p.Style = "bufcap-aligned"
		// cuts at multiples of the buffer capacity and its doublings
		c := p.BufCap
		if c == 0 {
			c = 1024
		}
		for o := c; o < len(doc); o = 2*o + 1 {
			for d := -1; d <= 1; d++ {
				if o+d > 0 && o+d < len(doc) {
					p.Read.Cuts = append(p.Read.Cuts, o+d)
				}
			}
		}
		sort.Ints(p.Read.Cuts)
	}
	return p
}

var errAbandoned = errors.New("csvfrag: the reader of an earlier call failed")

func confFuncs(c *gen.CSVCase) []csv.ConfigFunc {
	ff := []csv.ConfigFunc{csv.Delimiter(c.Delim), csv.EmptyNull(c.EmptyNull), csv.IgnoreEmptyLines(c.IgnoreEmptyLines)}
	if c.UseHeaders {
		ff = append(ff, csv.Headers(append([]string{}, c.Names...)))
	}
	if c.Types != nil {
		ff = append(ff, csv.Types(c.Types))
	}
	if c.EnumVals != nil {
		ff = append(ff, csv.EnumValues(c.EnumVals))
	}
	if c.RowCountHint != 0 {
		ff = append(ff, csv.RowCountHint(c.RowCountHint))
	}
	if c.Rename {
		ff = append(ff, csv.RenameDuplicateColumns(true))
	}
	if c.Alias != "" {
		ff = append(ff, csv.MissingColumnNameAlias(c.Alias))
	}
	// the options in an order that depends on the document (each sets what it
	// is about and nothing else; the same order for every read of one case)
	r := core.NewSplitMix(core.Hash64(c.Doc, len(ff)))
	for i := len(ff) - 1; i > 0; i-- {
		j := r.Intn(i + 1)
		ff[i], ff[j] = ff[j], ff[i]
	}
	return ff
}

type result struct {
	fr      *obs.Frame
	panicky string
	rd      *simio.SimReader
	qf      qframe.QFrame
	dig     uint64
}

func read(c *gen.CSVCase, p plan) (res result) {
	rd := &simio.SimReader{Doc: c.Doc, Plan: p.Read, MaxReads: 16*len(c.Doc) + 1024}
	res.rd = rd
	verifhook.SetCSVBufCap(p.BufCap)
	defer verifhook.SetCSVBufCap(0)
	defer func() {
		if r := recover(); r != nil {
			res.panicky = fmt.Sprint(r)
		}
	}()
	qf := qframe.ReadCSV(rd.As(p.ReaderKind), confFuncs(c)...)
	res.fr = obs.Of(qf)
	res.qf, res.dig = qf, obs.Digest(qf)
	return res
}

type trace struct {
	Case     *gen.CSVCase `json:"case"`
	Plan     plan         `json:"plan"`
	Reads    int          `json:"reads"`
	Expected interface{}  `json:"expected,omitempty"`
	Observed interface{}  `json:"observed,omitempty"`
}

func cellMatch(want, got string) bool {
	if want == "NaN" {
		if !strings.HasPrefix(got, "f:") {
			return false
		}
		bits, err := strconv.ParseUint(got[2:], 16, 64)
		if err != nil {
			return false
		}
		return bits&0x7ff0000000000000 == 0x7ff0000000000000 && bits&0x000fffffffffffff != 0
	}
	return want == got
}

func runC12(t *rapid.T) {
	b := gen.CSVBounds{MaxCols: 4, MaxRows: 6}
	if core.Thorough() {
		b = gen.CSVBounds{MaxCols: 6, MaxRows: 12, Long: true, BigRows: true}
	} else {
		b.Long = true
		b.BigRows, b.BigRare = true, true
	}
	b.Cardinality, b.HugeCell = true, true
	c := gen.DrawCSV(t, b)
	p := drawPlan(t, c.Doc, c.Delim)
	core.Eval()

	// now and then the process has an abandoned read behind it: the same kind
	// of document (same delimiter and options), cut short by a failing reader.
	// What that call left behind must not matter to the reads that follow.
	if len(c.Doc) > 2 && rapid.IntRange(0, 7).Draw(t, "abandonedread") == 0 {
		at := rapid.IntRange(1, len(c.Doc)-1).Draw(t, "abandonedat")
		func() {
			defer func() { _ = recover() }()
			rd := &simio.SimReader{Doc: c.Doc, Plan: simio.ReadPlan{Fault: &simio.ReadFault{At: at, Kind: "opaque", Err: errAbandoned}}, MaxReads: 16*len(c.Doc) + 1024}
			ff := confFuncs(c)
			if other := []byte{'x', '0', ' ', ';', '\t'}[rapid.IntRange(0, 4).Draw(t, "abandoneddelim")]; other != c.Delim && rapid.Bool().Draw(t, "abandonedother") {
				ff = append(ff, csv.Delimiter(other)) // ... or read with another delimiter, one that occurs in cells
			}
			_ = qframe.ReadCSV(rd, ff...)
		}()
		core.Probe("read-after-an-abandoned-read")
	}
	base := read(c, plan{Style: "whole"})
	if base.panicky != "" {
		core.Violation(t, "C12:panic:baseline", "ReadCSV panicked on a single-read delivery: "+base.panicky, trace{Case: c, Plan: plan{Style: "whole"}})
		return
	}
	res := read(c, p)
	core.Steps(res.rd.Reads)
	// a frame stays what it was when ReadCSV is called again, on another
	// document of the same shape and size (every lower-case letter moved on
	// by one: buffers of the same sizes, different contents)
	if len(c.Doc) >= 1024 || rapid.IntRange(0, 7).Draw(t, "rereadother") == 0 {
		other := *c
		other.Doc = make([]byte, len(c.Doc))
		for i, ch := range c.Doc {
			if ch >= 'a' && ch < 'z' && ch != c.Delim && ch+1 != c.Delim {
				ch++
			}
			other.Doc[i] = ch
		}
		func() {
			defer func() { _ = recover() }() // judged elsewhere; here only the earlier frames matter
			read(&other, plan{Style: "whole"})
		}()
		for _, e := range []result{base, res} {
			if e.panicky == "" && obs.Digest(e.qf) != e.dig {
				core.Violation(t, "C12:earlier-frame-changed", "a frame returned by ReadCSV changed when ReadCSV was called again on another document: "+obs.Diff(e.fr, obs.Of(e.qf)), trace{Case: c, Plan: p, Expected: e.fr, Observed: obs.Of(e.qf)})
				return
			}
		}
		core.Probe("earlier-frames-rechecked-after-another-ReadCSV")
	}
	core.Event(c.Doc, fmt.Sprint(res.rd.Boundary), res.rd.Reads, fmt.Sprint(res.fr), res.panicky)
	tr := trace{Case: c, Plan: p, Reads: res.rd.Reads}

	// probes: where did read boundaries fall?
	nontrivial := false
	if res.rd.Short > 0 {
		inQuote := false
		bset := map[int]bool{}
		for _, o := range res.rd.Boundary {
			bset[o] = true
		}
		for i, ch := range c.Doc {
			if bset[i] && i > 0 {
				prev := c.Doc[i-1]
				switch {
				case inQuote && prev == '"' && ch == '"':
					core.Probe("cut-inside-doubled-quote")
					nontrivial = true
				case inQuote:
					core.Probe("cut-inside-quoted-field")
					nontrivial = true
				case prev == '\r' && ch == '\n':
					core.Probe("cut-inside-crlf")
					nontrivial = true
				case ch == '"':
					core.Probe("cut-before-opening-quote")
					nontrivial = true
				case prev == c.Delim || prev == '\n':
					core.Probe("cut-at-field-start")
					nontrivial = true
				default:
					core.Probe("cut-inside-unquoted-field")
					nontrivial = true
				}
			}
			if ch == '"' {
				inQuote = !inQuote
			}
		}
		if p.BufCap > 0 && len(c.Doc) > p.BufCap {
			core.Probe("buffer-growth-small-cap")
		}
		if len(c.Doc) > 1024 {
			core.Probe("doc-over-1KiB")
		}
	}
	if len(c.Rows) >= 1000 {
		core.Probe("rows>=1000")
		if c.RowCountHint > 2000 {
			core.Probe("rows>=1000-with-hint>2000")
			if len(c.Rows) > c.RowCountHint {
				core.Probe("more-rows-than-hinted")
			}
		}
	}
	if p.Read.EOFWithData {
		core.Probe("eof-with-data")
	}
	if nontrivial {
		core.Nontrivial(core.Hash64(c.Doc, fmt.Sprint(res.rd.Boundary), p.BufCap, p.Read.EOFWithData))
		if len(c.Doc) < 120 {
			core.Sample(map[string]interface{}{"doc": c.DocText, "plan_style": p.Style, "read_boundaries": res.rd.Boundary, "buf_cap": p.BufCap, "reads": res.rd.Reads})
		}
	}

	// F: no panic
	if res.panicky != "" {
		core.Violation(t, "C12:panic", "ReadCSV panicked under fragmentation: "+res.panicky, tr)
		return
	}
	// R3: bounded liveness
	if res.rd.Stuck {
		core.Violation(t, "C12:R3:no-progress", fmt.Sprintf("ReadCSV made more than %d Read calls on a %d byte document", res.rd.MaxReads, len(c.Doc)), tr)
		return
	}
	// R1: schedule independence
	if d := obs.Diff(base.fr, res.fr); d != "" {
		tr.Expected, tr.Observed = base.fr, res.fr
		core.Violation(t, "C12:R1:fragmentation-dependent", "result differs from the single-read run: "+d, tr)
		return
	}
	// R2: faithfulness (on the single-read result; by R1 it is also the fragmented one)
	exp := c.Expect()
	got := res.fr
	if exp.Skip != "" {
		// header with empty or duplicate names: what the option comments promise
		core.Probe("r2-odd-header")
		names := append([]string{}, c.Names...)
		first := map[string]int{}
		valid, dup := true, false
		for i, n := range names {
			if n == "" && c.Alias != "" {
				n = c.Alias
				names[i] = n
			}
			if n == "" {
				valid = false
			}
			if _, ok := first[n]; ok {
				dup = true
			} else {
				first[n] = i
			}
		}
		wantErr := !valid || (dup && !c.Rename)
		if wantErr {
			if !got.HasErr {
				core.Violation(t, "C12:R2:odd-header-accepted", fmt.Sprintf("header %q (alias %q, rename %v) cannot give unique non-empty names, but no error was reported; names %q", c.Names, c.Alias, c.Rename, got.Names), tr)
			}
			return
		}
		if got.HasErr {
			core.Violation(t, "C12:R2:odd-header-rejected", fmt.Sprintf("header %q with alias %q, rename %v rejected: %s", c.Names, c.Alias, c.Rename, got.Err), tr)
			return
		}
		if len(got.Names) != len(names) || got.Len != len(c.Rows) && !(len(c.Names) == 1 && c.IgnoreEmptyLines) {
			core.Violation(t, "C12:R2:odd-header-shape", fmt.Sprintf("%d columns x %d rows, document denotes %d x %d", len(got.Names), got.Len, len(names), len(c.Rows)), tr)
			return
		}
		seen := map[string]bool{}
		for i, n := range got.Names {
			if seen[n] {
				core.Violation(t, "C12:R2:duplicate-names", fmt.Sprintf("frame has duplicate column names %q", got.Names), tr)
				return
			}
			seen[n] = true
			if c.AliasTyped && names[i] == c.Alias {
				// the declared type of the aliased column must have been honoured
				if got.Types[i] != "string" {
					core.Violation(t, "C12:R2:alias-type", fmt.Sprintf("column %q (the alias of a nameless column) is declared string, the frame has %s", n, got.Types[i]), tr)
					return
				}
				for r, row := range c.Rows {
					want := "s:" + strconv.Quote(row[i])
					if row[i] == "" && c.EmptyNull {
						want = "null"
					}
					if len(c.Names) > 1 && r < len(got.Cols[i]) && got.Cols[i][r] != want {
						core.Violation(t, "C12:R2:cell", fmt.Sprintf("cell [%q,%d] is %s, document denotes %s", n, r, got.Cols[i][r], want), tr)
						return
					}
				}
			}
			if first[names[i]] != i {
				// RenameDuplicateColumns: "the column index appended to the
				// column name" - the name followed by a decimal number
				suffix := strings.TrimPrefix(n, names[i])
				if _, err := strconv.ParseUint(suffix, 10, 32); !strings.HasPrefix(n, names[i]) || err != nil || strings.HasPrefix(suffix, "+") {
					core.Violation(t, "C12:R2:odd-header-renamed-name", fmt.Sprintf("column %d: name %q is not %q followed by a number (header %q)", i, n, names[i], c.Names), tr)
					return
				}
			}
			if first[names[i]] == i && n != names[i] {
				core.Violation(t, "C12:R2:odd-header-untouched-name-changed", fmt.Sprintf("column %d: name %q, header says %q (first occurrence, must be kept)", i, n, names[i]), tr)
				return
			}
		}
		return
	}
	tr.Expected, tr.Observed = exp, got
	if exp.ExpectErr {
		core.Probe("r2-expect-err")
		if !got.HasErr {
			core.Violation(t, "C12:R2:missing-error", "configuration cannot be satisfied by the cells but no error was reported", tr)
		}
		return
	}
	if got.HasErr {
		core.Violation(t, "C12:R2:unexpected-error", "well-formed document rejected: "+got.Err, tr)
		return
	}
	if got.Bad != "" {
		core.Violation(t, "C12:R2:unobservable", got.Bad, tr)
		return
	}
	if fmt.Sprint(got.Names) != fmt.Sprint(exp.Names) || len(got.Names) != len(exp.Names) {
		core.Violation(t, "C12:R2:names", fmt.Sprintf("column names %q, document denotes %q", got.Names, exp.Names), tr)
		return
	}
	if got.Len != exp.Len {
		core.Violation(t, "C12:R2:len", fmt.Sprintf("%d rows, document denotes %d", got.Len, exp.Len), tr)
		return
	}
	for i := range exp.Names {
		if got.Types[i] != exp.Types[i] {
			core.Violation(t, "C12:R2:type", fmt.Sprintf("column %q has type %s, cells denote %s", exp.Names[i], got.Types[i], exp.Types[i]), tr)
			return
		}
		if exp.Types[i] == "Undefined" {
			continue
		}
		for r := range exp.Cells[i] {
			if !cellMatch(exp.Cells[i][r], got.Cols[i][r]) {
				core.Violation(t, "C12:R2:cell", fmt.Sprintf("cell [%q,%d] is %s, document denotes %s", exp.Names[i], r, got.Cols[i][r], exp.Cells[i][r]), tr)
				return
			}
		}
	}
	core.Probe("r2-checked-" + strconv.Itoa(len(exp.Names)) + "cols")
}
