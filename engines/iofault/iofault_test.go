// Engine iofault decides C15 by fault enumeration: for every seeded input the
// fault-free run is recorded, then EVERY position at which the reader, writer
// or driver can start failing is tried, in every shape, each under a freshly
// derived fragmentation plan.
package iofault

import (
	"context"
	"database/sql/driver"
	"errors"
	"fmt"
	"io"
	"os"
	"syscall"
	"testing"

	"github.com/tobgu/qframe"
	"github.com/tobgu/qframe/config/csv"
	"github.com/tobgu/qframe/config/newqf"
	qsql "github.com/tobgu/qframe/config/sql"
	"github.com/tobgu/qframe/verifhook"
	"pgregory.net/rapid"

	"verifsim/sim/core"
	"verifsim/sim/gen"
	"verifsim/sim/obs"
	"verifsim/sim/simdb"
	"verifsim/sim/simio"
)

func TestMain(m *testing.M) {
	core.Init("iofault")
	code := m.Run()
	core.Flush()
	os.Exit(code)
}

func TestC15(t *testing.T) { rapid.Check(t, runC15) }

var (
	errOpaque  = errors.New("sim: injected I/O failure")
	errWrapEOF = fmt.Errorf("sim: connection reset by peer: %w", io.EOF)
)

type errKind struct {
	name string
	err  error
	// strict: the fault is an unambiguous failure, so F2 (an error must be
	// reported) applies; a wrapped io.EOF may legitimately be read as the end
	// of the stream, so only F3 (no silent loss) applies.
	strict bool
}

// errTemporary is what a network stack returns for a condition that may clear.
type errTemporary struct{}

func (errTemporary) Error() string   { return "simio: resource temporarily unavailable" }
func (errTemporary) Temporary() bool { return true }
func (errTemporary) Timeout() bool   { return false }

var readKinds = []errKind{
	{"opaque", errOpaque, true},
	{"closed-pipe", io.ErrClosedPipe, true},
	{"deadline", context.DeadlineExceeded, true},
	{"unexpected-eof", io.ErrUnexpectedEOF, true},
	{"wrapped-eof", errWrapEOF, false},
}

var writeKinds = []errKind{
	{"opaque", errOpaque, true},
	{"enospc", syscall.ENOSPC, true},
	{"closed-pipe", io.ErrClosedPipe, true},
	{"short-write", io.ErrShortWrite, true},
}

// driver.ErrBadConn is special: database/sql may absorb it by retrying the
// call (which calls it retries depends on the API the caller used: Stmt.Exec
// and Stmt.Query are retried, Tx.Exec is not), so whether the failure reaches
// qframe at all cannot be told from outside. For it only F3 applies (no error
// => nothing lost); F2 (fired => error reported) is demanded for the opaque
// error, which database/sql hands to its caller on every path.
var dbKinds = []errKind{
	{"opaque", simdb.ErrInjected, true},
	{"badconn", driver.ErrBadConn, false},
}

type caseTrace struct {
	Surface  string      `json:"surface"`
	Input    interface{} `json:"input"`
	Doc      string      `json:"doc,omitempty"`
	Position int         `json:"position"`
	Of       int         `json:"positions"`
	Shape    string      `json:"shape"`
	Kind     string      `json:"kind"`
	Plan     interface{} `json:"plan,omitempty"`
	Reported string      `json:"reported_error"`
	Fired    bool        `json:"fault_fired"`
	Expected interface{} `json:"fault_free_result,omitempty"`
	Observed interface{} `json:"observed,omitempty"`
}

// randomPlan derives a fragmentation plan from the sub-stream.
func randomPlan(r *core.SplitMix, n int) simio.ReadPlan {
	var p simio.ReadPlan
	switch r.Intn(5) {
	case 0:
	case 1:
		p.Sizes = []int{1}
	case 2:
		p.Sizes = []int{[]int{2, 3, 7}[r.Intn(3)]}
	case 3:
		for i := 0; i < 17; i++ {
			p.Sizes = append(p.Sizes, 1+r.Intn(8))
		}
	case 4:
		if n > 0 {
			c := r.Intn(n + 1)
			p.Cuts = []int{c}
		}
	}
	return p
}

func runC15(t *rapid.T) {
	surface := rapid.IntRange(0, 5).Draw(t, "surface")
	key := rapid.Uint64().Draw(t, "plankey")
	r := core.NewSplitMix(key)
	switch surface {
	case 0:
		readCSVFaults(t, r)
	case 1:
		readJSONFaults(t, r)
	case 2:
		toCSVFaults(t, r)
	case 3:
		toJSONFaults(t, r)
	case 4:
		toSQLFaults(t, r)
	case 5:
		readSQLFaults(t, r)
	}
}

func note(surface string, pos int, shape, kind string, fired bool, inputSig uint64) {
	core.Eval()
	core.Event(surface, pos, shape, kind, fired, inputSig)
	core.Configured(surface + "/" + shape + "/" + kind)
	if fired {
		core.Fault(surface + "/" + shape + "/" + kind)
		core.Nontrivial(core.Hash64(surface, inputSig, pos, shape, kind))
	}
}

// ---------- readers ----------

type readFn func(rd io.Reader) (fr *obs.Frame, panicked interface{})

func enumerateReader(t *rapid.T, r *core.SplitMix, surface string, doc []byte, input interface{}, read readFn) {
	base, p0 := read(&simio.SimReader{Doc: doc})
	if p0 != nil {
		core.Violation(t, "C15:panic:"+surface+":fault-free", fmt.Sprint("panic without any fault: ", p0), caseTrace{Surface: surface, Input: input, Doc: fmt.Sprintf("%q", doc)})
		return
	}
	if base.HasErr {
		// the fault-free input must be acceptable, otherwise errors tell nothing
		core.Probe(surface + "-input-rejected-fault-free")
		return
	}
	inputSig := core.Hash64(doc)
	n := len(doc)
	sampled := false
	for pos := 0; pos <= n; pos++ {
		for shapeIx, withData := range []bool{false, true, false, true} {
			once := shapeIx >= 2
			if withData && pos == 0 {
				continue
			}
			shape := "zero-bytes-and-error"
			if withData {
				shape = "data-and-error"
			}
			if once {
				shape = "transient-" + shape
			}
			kinds := []errKind{readKinds[r.Intn(3)], readKinds[3], readKinds[4]}
			if once {
				// a failure that is over at the next call: also as an error that says so
				kinds = []errKind{readKinds[r.Intn(3)], {"temporary", errTemporary{}, true}}
			}
			for _, k := range kinds {
				plan := randomPlan(r, n)
				plan.Fault = &simio.ReadFault{At: pos, WithData: withData, Kind: k.name, Err: k.err, Once: once}
				rd := &simio.SimReader{Doc: doc, Plan: plan, MaxReads: 16*n + 1024}
				if surface == "ReadCSV" {
					// faults must also meet the refill/realloc paths of the scan buffer
					verifhook.SetCSVBufCap([]int{0, 0, 1, 2, 3, 8, 16}[r.Intn(7)])
				}
				fr, pan := read(rd.As(r.Intn(3))) // plain | io.WriterTo | io.ByteReader
				verifhook.SetCSVBufCap(0)
				core.Steps(rd.Reads)
				note(surface, pos, shape, k.name, rd.Fired, inputSig)
				tr := caseTrace{Surface: surface, Input: input, Doc: fmt.Sprintf("%q", doc), Position: pos, Of: n + 1, Shape: shape, Kind: k.name, Plan: plan, Fired: rd.Fired, Expected: base}
				if pan != nil {
					core.Violation(t, "C15:panic:"+surface, fmt.Sprintf("panic with the reader failing at byte %d/%d (%s, %s): %v", pos, n, shape, k.name, pan), tr)
					return
				}
				tr.Observed = fr
				tr.Reported = fr.Err
				core.Event(fmt.Sprint(fr), rd.Reads)
				if rd.Stuck {
					core.Violation(t, "C15:no-progress:"+surface, "call kept reading a failing reader", tr)
					return
				}
				if !rd.Fired {
					continue // position never reached: no obligation
				}
				if !sampled && n < 80 {
					sampled = true
					core.Sample(map[string]interface{}{"surface": surface, "doc": string(doc), "fault_at_byte": pos, "shape": shape, "kind": k.name, "reported": fr.Err})
				}
				where := "mid-stream"
				if pos == n {
					where = "instead-of-eof"
				}
				if !fr.HasErr {
					if d := obs.Diff(base, fr); d != "" {
						core.Violation(t, "C15:swallowed:"+surface+":partial-data", fmt.Sprintf("reader failed at byte %d/%d (%s, %s), no error reported and the frame differs from the fault-free one: %s", pos, n, shape, k.name, d), tr)
						return
					}
					// a transient failure after which the call went on and obtained
					// the complete, correct data is not a loss (e.g. json.Decoder.More
					// hides a read error and the next Read succeeds): F3 above only
					if k.strict && !withData && !once {
						core.Violation(t, "C15:swallowed:"+surface+":"+where, fmt.Sprintf("reader returned (0, %s) at byte %d/%d, the call reported no error", k.name, pos, n), tr)
						return
					}
				}
			}
		}
	}
}

func readCSVFaults(t *rapid.T, r *core.SplitMix) {
	b := gen.CSVBounds{MaxCols: 3, MaxRows: 4}
	if core.Thorough() {
		b = gen.CSVBounds{MaxCols: 4, MaxRows: 8, Long: rapid.IntRange(0, 20).Draw(t, "long") == 0}
	}
	c := gen.DrawCSV(t, b)
	if c.OddHeader {
		c.Rename, c.Alias = true, "missing"
	}
	ff := []csv.ConfigFunc{csv.Delimiter(c.Delim), csv.EmptyNull(c.EmptyNull), csv.IgnoreEmptyLines(c.IgnoreEmptyLines)}
	if c.UseHeaders {
		ff = append(ff, csv.Headers(append([]string{}, c.Names...)))
	}
	if c.Types != nil {
		ff = append(ff, csv.Types(c.Types))
	}
	if c.Rename {
		ff = append(ff, csv.RenameDuplicateColumns(true), csv.MissingColumnNameAlias("missing"))
	}
	enumerateReader(t, r, "ReadCSV", c.Doc, c, func(rd io.Reader) (fr *obs.Frame, pan interface{}) {
		defer func() { pan = recover() }()
		var opts []csv.ConfigFunc
		opts = append(opts, ff...)
		if c.EnumVals != nil {
			opts = append(opts, csv.EnumValues(c.EnumVals)) // fresh copy per call: ReadCSV consumes the map
		}
		return obs.Of(qframe.ReadCSV(rd, opts...)), nil
	})
}

func drawJSONFrame(t *rapid.T) (*gen.FrameSpec, qframe.QFrame) {
	b := gen.FrameBounds{MaxCols: 3, MaxRows: 4, MinRows: 1, NoInf: true, NoNaN: true, NoEnum: true}
	if core.Thorough() {
		b.MaxCols, b.MaxRows = 4, 8
	}
	fs := gen.DrawFrame(t, b)
	return fs, fs.Build()
}

func readJSONFaults(t *rapid.T, r *core.SplitMix) {
	fs, qf := drawJSONFrame(t)
	w := &simio.SimWriter{}
	if err := qf.ToJSON(w); err != nil {
		t.Fatalf("harness: ToJSON: %v", err)
	}
	names := make([]string, len(fs.Cols))
	for i, c := range fs.Cols {
		names[i] = c.Name
	}
	// with and without options: an option that names columns turns "no data
	// at all" into an error of its own and would hide a swallowed read error
	withOrder := rapid.Bool().Draw(t, "columnorder")
	enumerateReader(t, r, "ReadJSON", w.Buf, map[string]interface{}{"frame": fs, "column_order_option": withOrder}, func(rd io.Reader) (fr *obs.Frame, pan interface{}) {
		defer func() { pan = recover() }()
		if !withOrder {
			return obs.Of(qframe.ReadJSON(rd)), nil
		}
		return obs.Of(qframe.ReadJSON(rd, newqf.ColumnOrder(names...))), nil
	})
}

// ---------- writers ----------

type writeFn func(w io.Writer) (err error, panicked interface{})

func enumerateWriter(t *rapid.T, r *core.SplitMix, surface string, input interface{}, write writeFn) {
	w0 := &simio.SimWriter{}
	err0, p0 := write(w0)
	for capability := 1; capability < 4 && p0 == nil && err0 == nil; capability++ {
		// whatever else the writer implements, the bytes must be the same
		wc := &simio.SimWriter{}
		errc, pc := write(wc.As(capability))
		if pc != nil || errc != nil || string(wc.Buf) != string(w0.Buf) {
			core.Violation(t, "C15:"+surface+":writer-capability-changes-output", fmt.Sprintf("a fault-free writer that also implements capability %d received different bytes (err %v, panic %v)", capability, errc, pc), caseTrace{Surface: surface, Input: input, Doc: fmt.Sprintf("%q", w0.Buf), Observed: fmt.Sprintf("%q", wc.Buf)})
			return
		}
	}
	if p0 != nil {
		core.Violation(t, "C15:panic:"+surface+":fault-free", fmt.Sprint("panic without any fault: ", p0), caseTrace{Surface: surface, Input: input})
		return
	}
	if err0 != nil {
		core.Probe(surface + "-input-rejected-fault-free")
		return
	}
	want := w0.Buf
	n := len(want)
	inputSig := core.Hash64(want)
	sampled := false
	// every position; for outputs of tens of kilobytes (the rare frame of
	// thousands of rows) the positions around the buffer sizes in use, the
	// first and the last bytes, and a seeded sample of the rest
	positions := make([]int, 0, n)
	if n <= 12000 {
		for pos := 0; pos < n; pos++ {
			positions = append(positions, pos)
		}
	} else {
		core.Probe(surface + "-large-output-sampled-positions")
		for _, c := range []int{0, 1, 2, 4095, 4096, 4097, 16384, 32768, 65535, 65536, 65537, n - 65537, n - 65536, n - 4097, n - 4096, n - 3, n - 2, n - 1} {
			if c >= 0 && c < n {
				positions = append(positions, c)
			}
		}
		for i := 0; i < 40; i++ {
			positions = append(positions, r.Intn(n))
		}
	}
	for _, pos := range positions {
		for shapeIx, short := range []bool{false, true, false} {
			once := shapeIx == 2
			shape := "zero-bytes-and-error"
			if short {
				shape = "short-write"
			}
			if once {
				shape = "transient-zero-bytes-and-error"
			}
			k := writeKinds[r.Intn(len(writeKinds))]
			w := &simio.SimWriter{Fault: &simio.WriteFault{At: pos, Short: short, Kind: k.name, Err: k.err, Once: once}}
			capability := r.Intn(4) // plain | io.ByteWriter | io.StringWriter | both
			err, pan := write(w.As(capability))
			core.Steps(w.Writes)
			note(surface, pos, shape, k.name, w.Fired, inputSig)
			tr := caseTrace{Surface: surface, Input: input, Doc: fmt.Sprintf("%q", want), Position: pos, Of: n, Shape: shape, Kind: k.name, Fired: w.Fired, Observed: fmt.Sprintf("%q", w.Buf), Plan: map[string]int{"writer_capability": capability}}
			if pan != nil {
				core.Violation(t, "C15:panic:"+surface, fmt.Sprintf("panic with the writer failing at byte %d/%d (%s, %s): %v", pos, n, shape, k.name, pan), tr)
				return
			}
			if err != nil {
				tr.Reported = err.Error()
			}
			core.Event(tr.Reported, w.Buf, w.Writes)
			if !sampled && w.Fired && n < 80 {
				sampled = true
				core.Sample(map[string]interface{}{"surface": surface, "fault_free_output": string(want), "writer_full_at_byte": pos, "shape": shape, "kind": k.name, "reported": tr.Reported, "write_call_sizes": w.Sizes})
			}
			if err == nil {
				if w.Fired && !(once && string(w.Buf) == string(want)) {
					core.Violation(t, "C15:swallowed:"+surface+":write-error", fmt.Sprintf("writer stopped accepting bytes at offset %d/%d (%s, %s), the call reported success", pos, n, shape, k.name), tr)
					return
				}
				if string(w.Buf) != string(want) {
					core.Violation(t, "C15:swallowed:"+surface+":incomplete-output", "call reported success but the writer did not receive the complete output", tr)
					return
				}
			}
		}
	}
}

func drawWriteFrame(t *rapid.T, csvSafe bool) (*gen.FrameSpec, gen.Scramble, qframe.QFrame) {
	b := gen.FrameBounds{MaxCols: 3, MaxRows: 5, NoCR: csvSafe, NoInf: !csvSafe}
	if core.Thorough() {
		b.MaxCols, b.MaxRows = 4, 10
	}
	if rapid.IntRange(0, 25).Draw(t, "bigframe") == 0 {
		// enough output to cross bufio's 4 KiB buffer inside encoding/csv
		b.MaxRows, b.MinRows = 120, 100
	}
	if gen.Rare(t, "hugeframe", 400) {
		// thousands of rows (size thresholds at which a writer may change strategy)
		fs := gen.DrawBigFrame(t, 2048, 2600)
		return fs, gen.Scramble{}, fs.Build()
	}
	fs := gen.DrawFrame(t, b)
	scr := gen.DrawScramble(t, fs)
	return fs, scr, scr.Apply(fs.Build())
}

func toCSVFaults(t *rapid.T, r *core.SplitMix) {
	fs, scr, qf := drawWriteFrame(t, true)
	header := rapid.Bool().Draw(t, "header")
	enumerateWriter(t, r, "ToCSV", map[string]interface{}{"frame": fs, "scramble": scr, "header": header}, func(w io.Writer) (err error, pan interface{}) {
		defer func() { pan = recover() }()
		return qf.ToCSV(w, csv.Header(header)), nil
	})
}

func toJSONFaults(t *rapid.T, r *core.SplitMix) {
	fs, scr, qf := drawWriteFrame(t, false)
	enumerateWriter(t, r, "ToJSON", map[string]interface{}{"frame": fs, "scramble": scr}, func(w io.Writer) (err error, pan interface{}) {
		defer func() { pan = recover() }()
		return qf.ToJSON(w), nil
	})
}

// ---------- database/sql driver ----------

func drawDriver(t *rapid.T) simdb.Config {
	return simdb.Config{
		ExecMode:        rapid.IntRange(0, 2).Draw(t, "execmode"),
		NumInputUnknown: rapid.Bool().Draw(t, "numinput"),
		TextAsBytes:     rapid.Bool().Draw(t, "textbytes"),
	}
}

func drawSQLFrame(t *rapid.T) (*gen.FrameSpec, qframe.QFrame) {
	b := gen.FrameBounds{MaxCols: 3, MaxRows: 5, MinRows: 1, NoNullStr: true}
	if core.Thorough() {
		b.MaxCols, b.MaxRows = 4, 12
	}
	fs := gen.DrawFrame(t, b)
	for i := range fs.Cols {
		fs.Cols[i].Name = fmt.Sprintf("c%d", i)
	}
	return fs, fs.Build()
}

func toSQLFaults(t *rapid.T, r *core.SplitMix) {
	fs, qf := drawSQLFrame(t)
	cfg := drawDriver(t)
	input := map[string]interface{}{"frame": fs, "driver": cfg}
	run := func(f *simdb.Fault) (sim *simdb.DB, err error, pan interface{}) {
		sim = simdb.New(cfg)
		db := sim.Open()
		defer db.Close()
		tx, berr := db.Begin()
		if berr != nil {
			return sim, berr, nil
		}
		defer tx.Rollback()
		if f != nil {
			f2 := *f
			f2.At += len(sim.Ops)
			sim.Fault = &f2
		}
		sim.Stmts = nil
		func() {
			defer func() { pan = recover() }()
			err = qf.ToSQL(tx, qsql.Table("t"))
		}()
		return sim, err, pan
	}
	base, err0, p0 := run(nil)
	if p0 != nil || err0 != nil {
		core.Violation(t, "C15:ToSQL:fault-free", fmt.Sprint("ToSQL failed without any fault: ", err0, p0), caseTrace{Surface: "ToSQL", Input: input})
		return
	}
	n := len(base.Ops) - 1 // ops after Begin
	inputSig := core.Hash64(fmt.Sprint(base.Stmts))
	for pos := 0; pos < n; pos++ {
		for _, k := range dbKinds {
			sim, err, pan := run(&simdb.Fault{At: pos, Kind: k.name, Err: k.err})
			core.Steps(len(sim.Ops))
			opKind := base.Ops[pos+1].Kind
			note("ToSQL", pos, opKind, k.name, sim.Fired, inputSig)
			tr := caseTrace{Surface: "ToSQL", Input: input, Position: pos, Of: n, Shape: opKind, Kind: k.name, Fired: sim.Fired, Expected: base.Stmts, Observed: sim.Stmts}
			if pan != nil {
				core.Violation(t, "C15:panic:ToSQL", fmt.Sprintf("panic with driver call %d/%d (%s) failing: %v", pos, n, opKind, pan), tr)
				return
			}
			if err != nil {
				tr.Reported = err.Error()
				continue
			}
			if sim.Fired && !k.strict {
				core.Probe("ToSQL-badconn-no-error-reported-complete-output-required")
			} else if sim.Fired {
				core.Violation(t, "C15:swallowed:ToSQL:"+opKind, fmt.Sprintf("driver call %d/%d (%s) failed with %s, ToSQL reported success", pos, n, opKind, k.name), tr)
				return
			}
			if fmt.Sprint(sim.Stmts) != fmt.Sprint(base.Stmts) {
				core.Violation(t, "C15:swallowed:ToSQL:incomplete", "ToSQL reported success but the driver did not receive the complete statement sequence", tr)
				return
			}
		}
	}
	if n <= 6 {
		core.Sample(map[string]interface{}{"surface": "ToSQL", "driver_calls": base.Ops[1:], "each_failed_with": []string{"opaque", "driver.ErrBadConn"}})
	}
}

func readSQLFaults(t *rapid.T, r *core.SplitMix) {
	fs, qf := drawSQLFrame(t)
	cfg := drawDriver(t)
	withArgs := rapid.Bool().Draw(t, "queryargs")
	input := map[string]interface{}{"frame": fs, "driver": cfg, "query_args": withArgs}
	// the stored table: what ToSQL writes for this frame
	seed := simdb.New(cfg)
	{
		db := seed.Open()
		tx, err := db.Begin()
		if err != nil {
			t.Fatalf("harness: %v", err)
		}
		if err := qf.ToSQL(tx, qsql.Table("t")); err != nil {
			t.Fatalf("harness: ToSQL: %v", err)
		}
		tx.Rollback()
		db.Close()
	}
	table := seed.Tables["t"]
	run := func(f *simdb.Fault) (sim *simdb.DB, fr *obs.Frame, pan interface{}) {
		sim = simdb.New(cfg)
		sim.Tables["t"] = table
		db := sim.Open()
		defer db.Close()
		tx, berr := db.Begin()
		if berr != nil {
			return sim, &obs.Frame{HasErr: true, Err: berr.Error()}, nil
		}
		defer tx.Rollback()
		if f != nil {
			f2 := *f
			f2.At += len(sim.Ops)
			sim.Fault = &f2
		}
		func() {
			defer func() { pan = recover() }()
			if withArgs {
				fr = obs.Of(qframe.ReadSQLWithArgs(tx, []interface{}{int64(7), "x"}, qsql.Query("SELECT * FROM t WHERE 7 = ? AND 'y' <> ?")))
			} else {
				fr = obs.Of(qframe.ReadSQL(tx, qsql.Query("SELECT * FROM t")))
			}
		}()
		return sim, fr, pan
	}
	base, fr0, p0 := run(nil)
	if p0 != nil || fr0.HasErr {
		core.Violation(t, "C15:ReadSQL:fault-free", fmt.Sprint("ReadSQL failed without any fault: ", fr0.Err, p0), caseTrace{Surface: "ReadSQL", Input: input})
		return
	}
	n := len(base.Ops) - 1
	inputSig := core.Hash64(fmt.Sprint(table.Rows))
	for pos := 0; pos < n; pos++ {
		for _, k := range dbKinds {
			sim, fr, pan := run(&simdb.Fault{At: pos, Kind: k.name, Err: k.err})
			core.Steps(len(sim.Ops))
			opKind := base.Ops[pos+1].Kind
			if opKind == "next" && pos == n-1 {
				opKind = "next-instead-of-eof"
			}
			note("ReadSQL", pos, opKind, k.name, sim.Fired, inputSig)
			tr := caseTrace{Surface: "ReadSQL", Input: input, Position: pos, Of: n, Shape: opKind, Kind: k.name, Fired: sim.Fired, Expected: fr0, Observed: fr}
			if pan != nil {
				core.Violation(t, "C15:panic:ReadSQL", fmt.Sprintf("panic with driver call %d/%d (%s) failing: %v", pos, n, opKind, pan), tr)
				return
			}
			tr.Reported = fr.Err
			if fr.HasErr || !sim.Fired {
				continue
			}
			if !k.strict {
				core.Probe("ReadSQL-badconn-no-error-reported-complete-data-required")
				if d := obs.Diff(fr0, fr); d != "" {
					core.Violation(t, "C15:swallowed:ReadSQL:partial-data", "no error reported and the frame differs from the fault-free one: "+d, tr)
					return
				}
				continue
			}
			if d := obs.Diff(fr0, fr); d != "" {
				core.Violation(t, "C15:swallowed:ReadSQL:partial-data", fmt.Sprintf("driver call %d/%d (%s) failed with %s, ReadSQL reported no error and returned a frame that differs from the fault-free one: %s", pos, n, opKind, k.name, d), tr)
				return
			}
			core.Violation(t, "C15:swallowed:ReadSQL:"+opKind, fmt.Sprintf("driver call %d/%d (%s) failed with %s, ReadSQL reported no error", pos, n, opKind, k.name), tr)
			return
		}
	}
	if n <= 6 {
		core.Sample(map[string]interface{}{"surface": "ReadSQL", "driver_calls": base.Ops[1:], "each_failed_with": []string{"opaque", "driver.ErrBadConn"}})
	}
}
