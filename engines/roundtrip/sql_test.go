package roundtrip

import (
	"database/sql"
	"database/sql/driver"
	"fmt"
	"math"
	"strconv"
	"testing"

	"github.com/tobgu/qframe"
	qsql "github.com/tobgu/qframe/config/sql"
	"pgregory.net/rapid"

	"verifsim/sim/core"
	"verifsim/sim/gen"
	"verifsim/sim/obs"
	"verifsim/sim/simdb"
)

func TestC19(t *testing.T) { rapid.Check(t, runC19) }

type c19Trace struct {
	Frame     *gen.FrameSpec `json:"frame"`
	Scramble  gen.Scramble   `json:"scramble"`
	Driver    simdb.Config   `json:"driver"`
	Dialect   string         `json:"dialect"`
	Table     string         `json:"table"`
	Precision int            `json:"precision"`
	QueryArgs []interface{}  `json:"query_args,omitempty"`
	Stmts     []simdb.Stmt   `json:"stmts,omitempty"`
	Detail    string         `json:"detail,omitempty"`
	Expected  *obs.Frame     `json:"expected,omitempty"`
	Observed  *obs.Frame     `json:"observed,omitempty"`
}

var sqlNameSuffix = []string{"", "", "_x", " y", "é", "Z9", "-k", ".d"}

func runC19(t *rapid.T) {
	b := gen.FrameBounds{MaxCols: 4, MaxRows: 10, MinRows: 1}
	if core.Thorough() {
		b.MaxCols, b.MaxRows = 6, 48
	}
	if gen.Rare(t, "wide", 25) {
		b.MinCols, b.MaxCols, b.MaxRows = 9, 14, 4 // two-digit placeholder numbers
	}
	var fs *gen.FrameSpec
	if gen.Rare(t, "big", 1500) {
		fs = gen.DrawBigFrame(t, 300, 1500) // many statements in one transaction
		core.Probe("big-frame")
	} else {
		fs = gen.DrawFrame(t, b)
	}
	suffix := make([]int, len(fs.Cols))
	for i := range fs.Cols {
		suffix[i] = rapid.IntRange(0, len(sqlNameSuffix)-1).Draw(t, "suffix")
		fs.Cols[i].Name = "c" + strconv.Itoa(i)
	}
	scr := gen.DrawScramble(t, fs)
	tr := &c19Trace{Frame: fs, Scramble: scr}

	dialect := rapid.IntRange(0, 7).Draw(t, "dialect")
	var conf []qsql.ConfigFunc
	cfg := simdb.Config{}
	switch dialect {
	case 0:
		tr.Dialect = "default"
	case 1:
		tr.Dialect = "sqlite"
		conf = append(conf, qsql.SQLite())
		cfg.Escape = '"'
	case 2:
		tr.Dialect = "mysql"
		conf = append(conf, qsql.MySQL())
		cfg.Escape = '`'
	case 3:
		tr.Dialect = "postgres"
		conf = append(conf, qsql.Postgres())
		cfg.Escape, cfg.Incrementing = '"', true
	case 4:
		tr.Dialect = "incrementing-only"
		conf = append(conf, qsql.Incrementing())
		cfg.Incrementing = true
	case 6:
		// presets and primitives compose: each sets what it is about, nothing else
		tr.Dialect = "postgres-then-mysql"
		conf = append(conf, qsql.Postgres(), qsql.MySQL())
		cfg.Escape, cfg.Incrementing = '`', true
	case 7:
		tr.Dialect = "incrementing-then-sqlite"
		conf = append(conf, qsql.Incrementing(), qsql.SQLite())
		cfg.Escape, cfg.Incrementing = '"', true
	case 5:
		tr.Dialect = "custom-escape"
		// any rune may be configured, also one beyond ASCII
		cfg.Escape = []rune{'\'', '\'', '\u00b4', '\u2018', '\U0001F600'}[rapid.IntRange(0, 4).Draw(t, "escrune")]
		conf = append(conf, qsql.EscapeChar(cfg.Escape))
	}
	// identifiers from an alphabet that cannot collide with the statement
	// syntax; without an escape rune only plain identifier characters
	renamed := map[string]string{}
	for i := range fs.Cols {
		sfx := sqlNameSuffix[suffix[i]]
		if cfg.Escape == 0 && suffix[i] >= 3 && suffix[i] != 5 {
			sfx = "_p"
		}
		renamed[fs.Cols[i].Name] = fs.Cols[i].Name + sfx
		fs.Cols[i].Name += sfx
	}
	for i := range scr.Ops {
		if n, ok := renamed[scr.Ops[i].Col]; ok {
			scr.Ops[i].Col = n
		}
	}
	tr.Scramble = scr
	tr.Table = []string{"t", "tbl_1", "Tab", "v1.events", "a.b.c", "t.", "sch-1.t", "t%d", "100%", "a%sb%%"}[rapid.IntRange(0, 9).Draw(t, "table")]
	conf = append(conf, qsql.Table(tr.Table))
	cfg.ExecMode = rapid.IntRange(0, 2).Draw(t, "execmode")
	cfg.NumInputUnknown = rapid.Bool().Draw(t, "numinput")
	cfg.TextAsBytes = rapid.Bool().Draw(t, "textbytes")
	cfg.BoolAsInt = rapid.Bool().Draw(t, "boolint")
	cfg.TruthyInts = cfg.BoolAsInt && rapid.Bool().Draw(t, "truthy")
	cfg.FloatAsText = rapid.IntRange(0, 3).Draw(t, "floattext") == 0
	if cfg.FloatAsText {
		// the StringToFloat coercion is documented for drivers that deliver the
		// number as a Go string; a []byte delivery is outside what it promises
		cfg.TextAsBytes = false
	}
	tr.Driver = cfg
	if rapid.IntRange(0, 3).Draw(t, "useprecision") == 0 {
		tr.Precision = rapid.IntRange(1, 17).Draw(t, "precision")
	}
	core.Eval()

	base := fs.Build()
	if base.Err != nil {
		// what New accepts is not this property's business: no frame, nothing to check
		newRejected(t, base.Err)
		return
	}
	qf := scr.Apply(base)
	if qf.Err != nil {
		t.Fatalf("harness: scramble failed: %v", qf.Err)
	}
	src := obs.Of(qf)
	if src.Len == 0 {
		core.Probe("skipped-zero-rows")
		return
	}
	for i, typ := range src.Types {
		if typ == "string" || typ == "enum" {
			allNull := true
			for _, c := range src.Cols[i] {
				if c != "null" {
					allNull = false
				}
			}
			if allNull {
				core.Probe("skipped-all-null-text-column")
				return
			}
		}
	}

	sim := simdb.New(cfg)
	db := sim.Open()
	defer db.Close()
	tx, err := db.Begin()
	if err != nil {
		t.Fatalf("harness: Begin: %v", err)
	}
	defer tx.Rollback()
	var werr error
	var wpanic interface{}
	func() {
		defer func() { wpanic = recover() }()
		werr = qf.ToSQL(tx, conf...)
	}()
	core.Steps(len(sim.Ops))
	tr.Stmts = sim.Stmts
	core.Event(fmt.Sprint(sim.Ops), fmt.Sprint(sim.Stmts), fmt.Sprint(werr))
	if wpanic != nil {
		core.Violation(t, "C19:panic:tosql", fmt.Sprint("ToSQL panicked: ", wpanic), tr)
		return
	}
	if len(sim.ParseErrors) > 0 {
		tr.Detail = sim.ParseErrors[0]
		core.Violation(t, "C19:statement:syntax", "statement not accepted by the INSERT grammar for this dialect: "+sim.ParseErrors[0], tr)
		return
	}
	if werr != nil {
		core.Violation(t, "C19:write-error", "ToSQL failed on a healthy driver: "+werr.Error(), tr)
		return
	}
	core.Nontrivial(core.Hash64(fmt.Sprint(sim.Stmts), fmt.Sprint(cfg), tr.Dialect))
	if src.Len <= 3 {
		core.Sample(map[string]interface{}{"dialect": tr.Dialect, "driver": cfg, "stmts": sim.Stmts})
	}
	// S1: one statement per row, in frame order
	if len(sim.Stmts) != src.Len {
		core.Violation(t, "C19:statement:count", fmt.Sprintf("%d statements for %d rows", len(sim.Stmts), src.Len), tr)
		return
	}
	for r, st := range sim.Stmts {
		ins, err := simdb.ParseInsert(st.Text, cfg.Escape)
		if err != nil {
			core.Violation(t, "C19:statement:syntax", err.Error(), tr)
			return
		}
		if ins.Table != tr.Table {
			core.Violation(t, "C19:statement:table", fmt.Sprintf("statement names table %q, configured %q", ins.Table, tr.Table), tr)
			return
		}
		if fmt.Sprintf("%q", ins.Cols) != fmt.Sprintf("%q", src.Names) {
			core.Violation(t, "C19:statement:columns", fmt.Sprintf("statement names columns %q, frame has %q", ins.Cols, src.Names), tr)
			return
		}
		if ins.Incrementing != cfg.Incrementing {
			core.Violation(t, "C19:statement:placeholders", fmt.Sprintf("placeholder style incrementing=%v, configured %v", ins.Incrementing, cfg.Incrementing), tr)
			return
		}
		for i, a := range ins.Place {
			if a != i {
				core.Violation(t, "C19:statement:placeholders", fmt.Sprintf("placeholder %d is $%d", i+1, a+1), tr)
				return
			}
		}
		if len(st.Args) != len(src.Names) {
			core.Violation(t, "C19:statement:args", fmt.Sprintf("row %d: %d args for %d columns", r, len(st.Args), len(src.Names)), tr)
			return
		}
		for c := range src.Names {
			if got := argText(st.Args[c]); got != canonCell(src.Cols[c][r]) {
				core.Violation(t, "C19:statement:args", fmt.Sprintf("row %d col %q: argument %s, cell %s", r, src.Names[c], got, src.Cols[c][r]), tr)
				return
			}
		}
	}

	// S2: read the stored rows back
	readConf := []qsql.ConfigFunc{qsql.Query("SELECT * FROM " + tr.Table)}
	if rapid.IntRange(0, 2).Draw(t, "withargs") == 0 {
		readConf = []qsql.ConfigFunc{qsql.Query("SELECT * FROM " + tr.Table + " WHERE 1 = ? AND 'x' <> ?")}
		tr.QueryArgs = []interface{}{int64(1), "y"}
	}
	{
		var pairs []qsql.CoercePair
		for i, n := range src.Names {
			if src.Types[i] == "bool" && cfg.BoolAsInt {
				pairs = append(pairs, qsql.CoercePair{Column: n, Type: qsql.Int64ToBool})
			}
			if src.Types[i] == "float" && cfg.FloatAsText {
				pairs = append(pairs, qsql.CoercePair{Column: n, Type: qsql.StringToFloat})
				core.Probe("coerce-string-to-float")
			}
		}
		if len(pairs) > 0 {
			readConf = append(readConf, qsql.Coerce(pairs...))
		}
	}
	if tr.Precision > 0 {
		readConf = append(readConf, qsql.Precision(tr.Precision))
	}
	if !readBack(t, tr, tx, readConf, src, "stored") {
		return
	}

	// S2b: a result set without rows (same columns): no error, no rows
	{
		sim.Tables["empty"] = &simdb.Table{Cols: append([]string{}, src.Names...)}
		conf0 := append([]qsql.ConfigFunc{}, readConf...)
		conf0[0] = qsql.Query("SELECT * FROM empty")
		var got0 qframe.QFrame
		var pan interface{}
		func() {
			defer func() { pan = recover() }()
			got0 = qframe.ReadSQL(tx, conf0...)
		}()
		if pan != nil || got0.Err != nil || got0.Len() != 0 {
			core.Violation(t, "C19:readsql:empty-result-set", fmt.Sprintf("ReadSQL of a result set without rows: panic %v, Err %v, %d rows", pan, got0.Err, got0.Len()), tr)
			return
		}
		core.Probe("readsql-checked-empty-result-set")
	}

	// S3: a result set with NULLs in float columns (NaN cells stored as NULL)
	nullTable := &simdb.Table{Cols: append([]string{}, src.Names...)}
	hasNull := false
	okNull := true
	for c := range src.Names {
		if src.Types[c] == "float" {
			all := true
			for _, cell := range src.Cols[c] {
				if !isNaNText(cell) {
					all = false
				}
			}
			if all {
				okNull = false // an entirely NULL column has no type
			}
		}
	}
	if okNull && !cfg.FloatAsText {
		for _, row := range sim.Tables[tr.Table].Rows {
			nr := append([]driver.Value{}, row...)
			for c, v := range nr {
				if f, ok := v.(float64); ok && math.IsNaN(f) {
					nr[c] = nil
					hasNull = true
				}
			}
			nullTable.Rows = append(nullTable.Rows, nr)
		}
		if hasNull {
			core.Probe("null-float-result-set")
			sim.Tables["nulls"] = nullTable
			readConf[0] = qsql.Query("SELECT * FROM nulls")
			if tr.QueryArgs != nil {
				readConf[0] = qsql.Query("SELECT * FROM nulls WHERE 1 = ? AND 'x' <> ?")
			}
			readBack(t, tr, tx, readConf, src, "null-floats")
		}
	}
}

// earlier holds the frames ReadSQL returned earlier in this process (a few of
// them) with the observation taken when they were returned: a frame read from
// a result set must stay what it was when later result sets are read.
var earlier []struct {
	f   qframe.QFrame
	dig uint64
	o   *obs.Frame
}

func readBack(t *rapid.T, tr *c19Trace, tx *sql.Tx, readConf []qsql.ConfigFunc, src *obs.Frame, which string) bool {
	var got qframe.QFrame
	var rpanic interface{}
	func() {
		defer func() { rpanic = recover() }()
		if tr.QueryArgs != nil {
			got = qframe.ReadSQLWithArgs(tx, tr.QueryArgs, readConf...)
		} else {
			got = qframe.ReadSQL(tx, readConf...)
		}
	}()
	for _, e := range earlier {
		if obs.Digest(e.f) != e.dig {
			tr.Expected, tr.Observed = e.o, obs.Of(e.f)
			core.Violation(t, "C19:readsql:earlier-frame-changed", "a frame returned by an earlier ReadSQL changed when another result set was read: "+obs.Diff(e.o, obs.Of(e.f)), tr)
			return false
		}
	}
	if got.Err == nil {
		if len(earlier) >= 3 {
			earlier = earlier[1:]
		}
		earlier = append(earlier, struct {
			f   qframe.QFrame
			dig uint64
			o   *obs.Frame
		}{got, obs.Digest(got), obs.Of(got)})
	}
	if rpanic != nil {
		core.Violation(t, "C19:panic:readsql:"+which, fmt.Sprint("ReadSQL panicked: ", rpanic), tr)
		return false
	}
	exp := &obs.Frame{Len: src.Len, Names: append([]string{}, src.Names...)}
	for i, typ := range src.Types {
		if typ == "enum" {
			typ = "string"
		}
		exp.Types = append(exp.Types, typ)
		exp.Cols = append(exp.Cols, append([]string{}, src.Cols[i]...))
	}
	gotObs := obs.Of(got)
	core.Event(which, fmt.Sprint(gotObs))
	if tr.Precision > 0 && !gotObs.HasErr && gotObs.Bad == "" && len(gotObs.Cols) == len(exp.Cols) && gotObs.Len == exp.Len {
		// Precision(p): the value is rounded to p decimals, i.e.
		// (a) |got - want| <= 0.5 * 10^-p (1 + eps) and
		// (b) got is (within a few ulps) the float of k x 10^-p for an integer k,
		// checked for values whose scaled magnitude stays far inside the
		// integer range; then the cell is taken as matching.
		for c, typ := range exp.Types {
			if typ != "float" || gotObs.Types[c] != "float" {
				continue
			}
			for r := range exp.Cols[c] {
				want, got := floatOf(exp.Cols[c][r]), floatOf(gotObs.Cols[c][r])
				if math.IsNaN(want) && which == "null-floats" {
					continue // a NULL is NaN whatever the precision: compared as is
				}
				if math.IsNaN(want) || math.IsInf(want, 0) || math.Abs(want)*math.Pow(10, float64(tr.Precision)) > 1e15 {
					// rounding a stored NaN/Inf/huge value is not specified
					gotObs.Cols[c][r] = exp.Cols[c][r]
					continue
				}
				tol := 0.5 * math.Pow(10, -float64(tr.Precision)) * (1 + 1e-9)
				k := math.Round(got * math.Pow(10, float64(tr.Precision)))
				grid, _ := strconv.ParseFloat(strconv.FormatFloat(k, 'f', 0, 64)+"e-"+strconv.Itoa(tr.Precision), 64)
				ulp := math.Nextafter(math.Abs(grid), math.Inf(1)) - math.Abs(grid)
				if math.Abs(got-want) <= tol+math.Abs(want)*1e-15 && math.Abs(got-grid) <= 4*ulp {
					gotObs.Cols[c][r] = exp.Cols[c][r]
				} else {
					// also when the stored value came back untouched
					gotObs.Cols[c][r] += fmt.Sprintf(" (%v is not %v rounded to %d decimals)", got, want, tr.Precision)
				}
			}
		}
	}
	canonNaN(exp)
	canonNaN(gotObs)
	tr.Expected, tr.Observed = exp, gotObs
	if d := obs.Diff(exp, gotObs); d != "" {
		kind := "cells"
		if gotObs.HasErr {
			kind = "read-error"
		}
		core.Violation(t, "C19:readsql:"+which+":"+kind, "ReadSQL of the "+which+" rows differs from the frame: "+d, tr)
		return false
	}
	core.Probe("readsql-checked-" + which)
	return true
}

func floatOf(cell string) float64 {
	if len(cell) < 3 || cell[:2] != "f:" {
		return math.NaN()
	}
	if cell == "f:NaN" {
		return math.NaN()
	}
	bits, err := strconv.ParseUint(cell[2:], 16, 64)
	if err != nil {
		return math.NaN()
	}
	return math.Float64frombits(bits)
}

// argText renders a driver argument in the canonical cell text.
func argText(v driver.Value) string {
	switch x := v.(type) {
	case nil:
		return "null"
	case int64:
		return "i:" + strconv.FormatInt(x, 10)
	case float64:
		if math.IsNaN(x) {
			return "f:NaN"
		}
		return obs.FloatText(x)
	case bool:
		return "b:" + strconv.FormatBool(x)
	case string:
		return "s:" + strconv.Quote(x)
	default:
		return fmt.Sprintf("?%T:%v", v, v)
	}
}

func canonCell(c string) string {
	if isNaNText(c) {
		return "f:NaN"
	}
	return c
}
