package roundtrip

import (
	"bytes"
	"encoding/json"
	"fmt"
	"io"
	"math"
	"strconv"
	"strings"

	"github.com/tobgu/qframe"
	"github.com/tobgu/qframe/config/newqf"
	"pgregory.net/rapid"

	"verifsim/sim/core"
	"verifsim/sim/gen"
	"verifsim/sim/obs"
	"verifsim/sim/simio"
)

type c14Trace struct {
	Frame    *gen.FrameSpec `json:"frame"`
	Scramble gen.Scramble   `json:"scramble"`
	PipeCap  int            `json:"pipe_cap"`
	Policy   gen.PolicyDesc `json:"policy"`
	Written  string         `json:"written,omitempty"`
	Detail   string         `json:"detail,omitempty"`
	Expected *obs.Frame     `json:"expected,omitempty"`
	Observed *obs.Frame     `json:"observed,omitempty"`
}

// denote is the string a JSON text can carry for s: every invalid UTF-8 byte
// is U+FFFD (the "properly escaped" form of an invalid byte).
func denote(s string) string { return string([]rune(s)) }

func needsEscape(s string) bool {
	for i := 0; i < len(s); i++ {
		if c := s[i]; c < 0x20 || c == '"' || c == '\\' || c >= 0x80 {
			return true
		}
	}
	return false
}

func runC14(t *rapid.T) {
	b := gen.FrameBounds{MaxCols: 4, MaxRows: 10, NoInf: true, FancyNames: true}
	if core.Thorough() {
		b.MaxCols, b.MaxRows = 6, 48
	}
	b.NoNaN = rapid.Bool().Draw(t, "nonan")
	var fs *gen.FrameSpec
	stress := false
	big := gen.Rare(t, "big", uint64(core.EnvInt("VERIF_BIG_ODDS", 1500)))
	if big {
		// size thresholds (tens of kilobytes of output and more)
		fs = gen.DrawBigFrame(t, 2500, 3500)
		core.Probe("big-frame")
		if rapid.IntRange(0, 5).Draw(t, "giant") == 0 {
			fs = gen.DrawBigFrame(t, 16385, 20003) // beyond 2^14 rows, about a megabyte of JSON
			core.Probe("giant-frame")
		}
	} else if gen.Rare(t, "stress", 8) {
		stress = true
		fs = gen.DrawStressFrame(t)
		core.Probe("float-stress-frame")
	} else {
		fs = gen.DrawFrame(t, b)
	}
	scr := gen.DrawScrambleOrEmpty(t, fs)
	tr := &c14Trace{Frame: fs, Scramble: scr}
	tr.PipeCap = pipeCaps[rapid.IntRange(0, len(pipeCaps)-1).Draw(t, "pipecap")]
	if stress && tr.PipeCap < 512 {
		tr.PipeCap = 512
	}
	if big && tr.PipeCap < 4096 {
		tr.PipeCap = 4096 // a byte-wise hand-off of 100 kB would only burn time
	}
	core.Eval()

	base := fs.Build()
	if base.Err != nil {
		// what New accepts is not this property's business: no frame, nothing to check
		newRejected(t, base.Err)
		return
	}
	qf := scr.Apply(base)
	if qf.Err != nil {
		t.Fatalf("harness: scramble failed: %v", qf.Err)
	}
	src := obs.Of(qf)

	// can ReadJSON be expected to reproduce the frame?
	readable := src.Len > 0 && len(src.Names) > 0 // records without members cannot carry a row count
	seen := map[string]bool{}
	for i, n := range src.Names {
		d := denote(n)
		if seen[d] || !gen.ValidName(d) {
			readable = false
		}
		seen[d] = true
		if src.Types[i] == "float" {
			for _, c := range src.Cols[i] {
				if isNaNText(c) {
					readable = false
				}
			}
		}
	}

	pol, desc := gen.DrawPolicy(t, 2, int64(20+qf.Len()), 3)
	tr.Policy = desc
	s := core.NewSched(pol)
	pipe := &simio.SimPipe{S: s, Cap: tr.PipeCap}
	w := &tee{p: pipe}
	var werr error
	var got qframe.QFrame
	s.Go("writer", func() {
		werr = qf.ToJSON(w)
		pipe.CloseWithError(werr)
	})
	var doRead func(r io.Reader) qframe.QFrame
	s.Go("reader", func() {
		got = doRead(pipe)
		pipe.CloseRead()
	})
	doRead = func(r io.Reader) qframe.QFrame {
		order := make([]string, len(src.Names))
		enums := map[string][]string{}
		for i, n := range src.Names {
			order[i] = denote(n)
			if src.Types[i] == "enum" {
				var vals []string
				base := n
				for strings.HasSuffix(base, "_cp") && fs.Col(base) == nil {
					base = strings.TrimSuffix(base, "_cp")
				}
				if c := fs.Col(base); c != nil {
					for _, v := range c.EnumVals {
						vals = append(vals, denote(v))
					}
				}
				enums[denote(n)] = vals
			}
		}
		opts := []newqf.ConfigFunc{newqf.ColumnOrder(order...)}
		if len(enums) > 0 {
			opts = append(opts, newqf.Enums(enums))
		}
		return qframe.ReadJSON(r, opts...)
	}
	ok := s.Run()
	core.Steps(int(s.Steps))
	chunks := pipe.Chunks
	if pipe.ForeignUse() {
		// the library did its I/O on a goroutine of its own: no schedule of
		// ours can include it. Same round trip, same oracle, no scheduler.
		core.Probe("library-goroutine-did-the-io:sequential-round-trip")
		var buf bytes.Buffer
		werr = qf.ToJSON(&buf)
		w.all = buf.Bytes()
		cr := &simio.ChunkReader{B: append([]byte{}, w.all...), N: tr.PipeCap}
		got = doRead(cr)
		chunks, ok = cr.Chunks, true
	}
	tr.Written = fmt.Sprintf("%q", w.all)
	{
		// ReadJSON's error text names whichever column Go's map iteration
		// reached first (N6 in DESIGN.md): only its presence is an event.
		o := obs.Of(got)
		o.Err = ""
		core.Event(w.all, fmt.Sprint(chunks), s.Digest(), fmt.Sprint(o))
	}
	if p := s.FirstPanic(); p != nil {
		core.Violation(t, "C14:panic:"+p.Name, fmt.Sprintf("%s panicked: %v\n%s", p.Name, p.Panic, p.PanicStack), tr)
		return
	}
	if !ok {
		// a reader that stops early (invalid JSON) closes its end; a deadlock here is a harness matter
		core.Violation(t, "C14:liveness", fmt.Sprintf("writer/reader did not finish (deadlock=%v overrun=%v)", s.Deadlock, s.Overrun), tr)
		return
	}
	nontrivial := false
	for i, n := range src.Names {
		if needsEscape(n) {
			core.Probe("name-needs-escape")
			nontrivial = true
		}
		if src.Types[i] == "string" || src.Types[i] == "enum" {
			for _, c := range src.Cols[i] {
				if strings.ContainsAny(c, "\\") { // strconv.Quote escaped something
					core.Probe("string-needs-escape")
					nontrivial = true
					break
				}
			}
		}
		if src.Types[i] == "float" {
			nontrivial = true
		}
	}
	if nontrivial {
		core.Nontrivial(core.Hash64(w.all))
		if len(w.all) < 160 {
			core.Sample(map[string]interface{}{"written": string(w.all), "chunks": chunks})
		}
	}
	if werr != nil && !strings.Contains(werr.Error(), "closed pipe") {
		core.Violation(t, "C14:write-error", "ToJSON failed on a healthy writer: "+werr.Error(), tr)
		return
	}

	// --- J1: the output is valid JSON denoting the frame (independent parser) ---
	sigSuffix := ""
	for _, n := range src.Names {
		if needsEscape(n) && strings.ContainsAny(n, "\"\\\x00\x01\x02\x03\x04\x05\x06\x07\x08\t\n\x0b\x0c\r\x0e\x0f\x10\x11\x12\x13\x14\x15\x16\x17\x18\x19\x1a\x1b\x1c\x1d\x1e\x1f") {
			sigSuffix = ":column-name-needs-escaping"
		}
	}
	if !json.Valid(w.all) {
		core.Violation(t, "C14:invalid-json"+sigSuffix, "ToJSON output is not valid JSON", tr)
		return
	}
	dec := json.NewDecoder(bytes.NewReader(w.all))
	dec.UseNumber()
	expectDelim := func(d rune) bool {
		tok, err := dec.Token()
		if err != nil {
			tr.Detail = err.Error()
			return false
		}
		dl, ok := tok.(json.Delim)
		return ok && rune(dl) == d
	}
	fail := func(kind, msg string) {
		tr.Detail = msg
		core.Violation(t, "C14:denotation:"+kind, msg, tr)
	}
	if !expectDelim('[') {
		fail("shape", "output does not start with an array")
		return
	}
	for r := 0; r < src.Len; r++ {
		if !expectDelim('{') {
			fail("shape", fmt.Sprintf("row %d is not an object", r))
			return
		}
		for c, name := range src.Names {
			tok, err := dec.Token()
			if err != nil {
				fail("shape", err.Error())
				return
			}
			key, ok := tok.(string)
			if !ok || key != denote(name) {
				fail("key", fmt.Sprintf("row %d key %d is %q, column name denotes %q", r, c, tok, denote(name)))
				return
			}
			val, err := dec.Token()
			if err != nil {
				fail("shape", err.Error())
				return
			}
			want := src.Cols[c][r]
			switch src.Types[c] {
			case "int":
				num, ok := val.(json.Number)
				if !ok || "i:"+num.String() != want {
					fail("int", fmt.Sprintf("row %d col %q: JSON has %v, cell is %s", r, name, val, want))
					return
				}
			case "float":
				if isNaNText(want) {
					if val != nil {
						fail("nan", fmt.Sprintf("row %d col %q: NaN written as %v, not null", r, name, val))
						return
					}
					break
				}
				num, ok := val.(json.Number)
				if !ok {
					fail("float", fmt.Sprintf("row %d col %q: JSON has %v, cell is %s", r, name, val, want))
					return
				}
				f, err := strconv.ParseFloat(num.String(), 64)
				if err != nil || obs.FloatText(f) != want {
					fail("float", fmt.Sprintf("row %d col %q: JSON number %s parses to %s, cell is %s", r, name, num, obs.FloatText(f), want))
					return
				}
				if strings.ContainsAny(num.String(), "eE") {
					core.Probe("float-exponent-notation")
				}
			case "bool":
				bv, ok := val.(bool)
				if !ok || "b:"+strconv.FormatBool(bv) != want {
					fail("bool", fmt.Sprintf("row %d col %q: JSON has %v, cell is %s", r, name, val, want))
					return
				}
			case "string", "enum":
				if want == "null" {
					if val != nil {
						fail("null", fmt.Sprintf("row %d col %q: null written as %v", r, name, val))
						return
					}
					break
				}
				sv, ok := val.(string)
				orig, _ := strconv.Unquote(want[2:])
				if !ok || sv != denote(orig) {
					fail("string", fmt.Sprintf("row %d col %q: JSON has %q, cell denotes %q", r, name, val, denote(orig)))
					return
				}
			}
		}
		if !expectDelim('}') {
			fail("shape", fmt.Sprintf("row %d has extra members", r))
			return
		}
	}
	if !expectDelim(']') {
		fail("shape", "array has extra elements")
		return
	}

	// --- J2: ReadJSON inverts it ---
	if !readable {
		core.Probe("readjson-not-expected-to-invert")
		return
	}
	core.Probe("readjson-checked")
	exp := &obs.Frame{Len: src.Len}
	for i, n := range src.Names {
		exp.Names = append(exp.Names, denote(n))
		typ := src.Types[i]
		col := make([]string, src.Len)
		for r, c := range src.Cols[i] {
			switch typ {
			case "int":
				v, _ := strconv.Atoi(c[2:])
				col[r] = obs.FloatText(float64(v))
			case "string", "enum":
				if c == "null" {
					col[r] = c
				} else {
					orig, _ := strconv.Unquote(c[2:])
					col[r] = "s:" + strconv.Quote(denote(orig))
				}
			default:
				col[r] = c
			}
		}
		if typ == "int" {
			typ = "float"
		}
		exp.Types = append(exp.Types, typ)
		exp.Cols = append(exp.Cols, col)
	}
	gotObs := obs.Of(got)
	tr.Expected, tr.Observed = exp, gotObs
	if d := obs.Diff(exp, gotObs); d != "" {
		kind := "cells"
		if gotObs.HasErr {
			kind = "read-error"
		}
		core.Violation(t, "C14:readjson:"+kind, "ReadJSON(ToJSON(F)) differs from F: "+d, tr)
	}
	_ = math.NaN
}
