// Engine roundtrip is the fault-free oracle of the I/O world: what was
// written reads back (C13 CSV, C14 JSON, C19 SQL). Writer and reader run as
// two simulated tasks over a bounded SimPipe, so the chunking the reader sees
// is decided by the seeded scheduler.
package roundtrip

import (
	"os"
	"testing"

	"pgregory.net/rapid"

	"verifsim/sim/core"
)

func TestMain(m *testing.M) {
	core.Init("roundtrip")
	code := m.Run()
	core.Flush()
	os.Exit(code)
}

func TestC13(t *testing.T) { rapid.Check(t, runC13) }
func TestC14(t *testing.T) { rapid.Check(t, runC14) }

var rejectedByNew int

// newRejected: a generated table that New refuses is skipped (the round-trip
// properties speak about frames that exist); if that becomes common the
// generator is broken and the engine says so instead of going quiet.
func newRejected(t *rapid.T, err error) {
	rejectedByNew++
	core.Probe("generated-frame-rejected-by-New")
	if rejectedByNew > 300 && int64(rejectedByNew)*50 > core.S.Evaluations {
		t.Fatalf("harness: New rejects %d of %d generated frames: %v", rejectedByNew, core.S.Evaluations, err)
	}
}
