package roundtrip

import (
	"bytes"
	"fmt"
	"io"
	"strconv"
	"strings"

	"github.com/tobgu/qframe"
	"github.com/tobgu/qframe/config/csv"
	"pgregory.net/rapid"

	"verifsim/sim/core"
	"verifsim/sim/gen"
	"verifsim/sim/obs"
	"verifsim/sim/simio"
)

var pipeCaps = []int{1 << 20, 4096, 64, 16, 7, 3, 2, 1}

type c13Trace struct {
	Frame             *gen.FrameSpec `json:"frame"`
	Scramble          gen.Scramble   `json:"scramble"`
	Header            bool           `json:"header"`
	HeaderOptionGiven bool           `json:"header_option_given,omitempty"`
	OptionsReversed   bool           `json:"options_reversed,omitempty"`
	Columns           []string       `json:"columns,omitempty"`
	EmptyNull         bool           `json:"empty_null"`
	DeclareDerived    bool           `json:"declare_derived_enum_values"`
	PipeCap           int            `json:"pipe_cap"`
	Policy            gen.PolicyDesc `json:"policy"`
	Written           string         `json:"written,omitempty"`
	Chunks            []int          `json:"chunks,omitempty"`
	Expected          *obs.Frame     `json:"expected,omitempty"`
	Observed          *obs.Frame     `json:"observed,omitempty"`
	WriteErr          string         `json:"write_err,omitempty"`
}

// tee records every byte the writer produced.
type tee struct {
	p   *simio.SimPipe
	all []byte
}

func (w *tee) Write(b []byte) (int, error) {
	n, err := w.p.Write(b)
	w.all = append(w.all, b[:n]...)
	return n, err
}

func runC13(t *rapid.T) {
	b := gen.FrameBounds{MaxCols: 4, MaxRows: 12, NoCR: true, FancyNames: true}
	if core.Thorough() {
		b.MaxCols, b.MaxRows = 6, 64
	}
	var fs *gen.FrameSpec
	stress := false
	big := gen.Rare(t, "big", 1500)
	if big {
		fs = gen.DrawBigFrame(t, 300, 2500) // output far beyond the writer's 4 KiB buffer
		core.Probe("big-frame")
	} else if gen.Rare(t, "stress", 12) {
		stress = true
		fs = gen.DrawStressFrame(t)
		core.Probe("float-stress-frame")
	} else {
		fs = gen.DrawFrame(t, b)
	}
	scr := gen.DrawScramble(t, fs)
	tr := &c13Trace{Frame: fs, Scramble: scr}
	tr.Header = rapid.IntRange(0, 3).Draw(t, "header") != 0
	tr.HeaderOptionGiven = rapid.Bool().Draw(t, "headeroption") // Header(true) spelled out
	tr.OptionsReversed = rapid.Bool().Draw(t, "optionsreversed")
	tr.EmptyNull = rapid.Bool().Draw(t, "emptynull")
	tr.PipeCap = pipeCaps[rapid.IntRange(0, len(pipeCaps)-1).Draw(t, "pipecap")]
	if stress && tr.PipeCap < 512 {
		tr.PipeCap = 512
	}
	if big && tr.PipeCap < 4096 {
		tr.PipeCap = 4096
	}
	core.Eval()

	base := fs.Build()
	if base.Err != nil {
		// what New accepts is not this property's business: no frame, nothing to check
		newRejected(t, base.Err)
		return
	}
	qf := scr.Apply(base)
	if qf.Err != nil {
		t.Fatalf("harness: scramble failed: %v", qf.Err)
	}
	src := obs.Of(qf)
	if len(src.Names) == 0 {
		return // C13 is about frames with at least one column
	}
	if src.Bad != "" {
		t.Fatalf("harness: derived frame cannot be observed: %s (scramble %+v)", src.Bad, scr)
	}
	names := src.Names
	order := names
	if rapid.IntRange(0, 2).Draw(t, "usecolumns") == 0 {
		order = rapid.Permutation(names).Draw(t, "columns")
		tr.Columns = order
	}
	// declared enum values of a (possibly copied) column of the derived frame;
	// for a column whose value set was derived from the data, now and then the
	// values the frame holds (in order of first appearance) are declared
	declareDerived := rapid.Bool().Draw(t, "declarederived")
	tr.DeclareDerived = declareDerived
	declared := func(name string) []string {
		orig := name
		for strings.HasSuffix(name, "_cp") && fs.Col(name) == nil {
			name = strings.TrimSuffix(name, "_cp")
		}
		if c := fs.Col(name); c != nil && c.EnumVals != nil {
			return c.EnumVals
		}
		if i := indexOf(src.Names, orig); declareDerived && i >= 0 && src.Types[i] == "enum" {
			var vals []string
			seen := map[string]bool{}
			for _, cell := range src.Cols[i] {
				if cell != "null" && !seen[cell] {
					seen[cell] = true
					v, err := strconv.Unquote(cell[2:])
					if err != nil {
						t.Fatalf("harness: cannot decode observed cell %s", cell)
					}
					vals = append(vals, v)
				}
			}
			if len(vals) > 0 {
				return vals
			}
		}
		return nil
	}
	// A null in an enum column whose declared value set lacks "" has no CSV
	// form that is a declared value: it can only come back as null, i.e. with
	// EmptyNull. Reading it back without EmptyNull is rightly an error and
	// outside what C13 states, so that combination is read with EmptyNull.
	for i, n := range src.Names {
		if vals := declared(n); src.Types[i] == "enum" && vals != nil && indexOf(vals, "") < 0 {
			for _, c := range src.Cols[i] {
				if c == "null" {
					tr.EmptyNull = true
				}
			}
		}
	}

	pol, desc := gen.DrawPolicy(t, 2, int64(20+qf.Len()*len(names)), 3)
	tr.Policy = desc
	s := core.NewSched(pol)
	pipe := &simio.SimPipe{S: s, Cap: tr.PipeCap}
	w := &tee{p: pipe}
	var werr error
	var got qframe.QFrame
	doWrite := func(w io.Writer) error {
		var opts []csv.ToConfigFunc
		if !tr.Header || tr.HeaderOptionGiven {
			opts = append(opts, csv.Header(tr.Header))
		}
		if tr.Columns != nil {
			opts = append(opts, csv.Columns(tr.Columns))
		}
		if tr.OptionsReversed {
			// options in either order: each sets what it is about, nothing else
			for i, j := 0, len(opts)-1; i < j; i, j = i+1, j-1 {
				opts[i], opts[j] = opts[j], opts[i]
			}
		}
		return qf.ToCSV(w, opts...)
	}
	s.Go("writer", func() {
		werr = doWrite(w)
		pipe.CloseWithError(werr)
	})
	var doRead func(r io.Reader) qframe.QFrame
	s.Go("reader", func() {
		got = doRead(pipe)
		pipe.CloseRead()
	})
	doRead = func(r io.Reader) qframe.QFrame {
		types := map[string]string{}
		enumVals := map[string][]string{}
		for i, n := range src.Names {
			types[n] = src.Types[i]
			if vals := declared(n); src.Types[i] == "enum" && vals != nil {
				enumVals[n] = vals
			}
		}
		opts := []csv.ConfigFunc{csv.Types(types), csv.EmptyNull(tr.EmptyNull)}
		if len(enumVals) > 0 {
			opts = append(opts, csv.EnumValues(enumVals))
		}
		if !tr.Header {
			opts = append(opts, csv.Headers(append([]string{}, order...)))
		}
		return qframe.ReadCSV(r, opts...)
	}
	ok := s.Run()
	core.Steps(int(s.Steps))
	chunks := pipe.Chunks
	if pipe.ForeignUse() {
		// the library did its I/O on a goroutine of its own: no schedule of
		// ours can include it. Same round trip, same oracle, no scheduler.
		core.Probe("library-goroutine-did-the-io:sequential-round-trip")
		var buf bytes.Buffer
		werr = doWrite(&buf)
		w.all = buf.Bytes()
		cr := &simio.ChunkReader{B: append([]byte{}, w.all...), N: tr.PipeCap}
		got = doRead(cr)
		chunks, ok = cr.Chunks, true
	}
	tr.Written = fmt.Sprintf("%q", w.all)
	tr.Chunks = chunks
	core.Event(w.all, fmt.Sprint(chunks), s.Digest(), fmt.Sprint(obs.Of(got)))
	if p := s.FirstPanic(); p != nil {
		core.Violation(t, "C13:panic:"+p.Name, fmt.Sprintf("%s panicked: %v\n%s", p.Name, p.Panic, p.PanicStack), tr)
		return
	}
	if !ok {
		core.Violation(t, "C13:liveness", fmt.Sprintf("writer/reader did not finish (deadlock=%v overrun=%v)", s.Deadlock, s.Overrun), tr)
		return
	}
	if len(chunks) > 1 {
		core.Probe("reader-saw-multiple-chunks")
		core.Nontrivial(core.Hash64(w.all, fmt.Sprint(chunks), tr.EmptyNull))
		if len(w.all) < 100 {
			core.Sample(map[string]interface{}{"written": string(w.all), "chunks": chunks, "pipe_cap": tr.PipeCap, "policy": desc, "empty_null": tr.EmptyNull, "header": tr.Header})
		}
	}
	if s.Switches > 2 {
		core.Probe("interleaved-writer-reader")
	}
	if werr == simio.ErrClosedPipe {
		// the reader returned before the writer was done: judge the frame it produced
		core.Probe("reader-finished-before-writer")
		tr.WriteErr = werr.Error()
	} else if werr != nil {
		tr.WriteErr = werr.Error()
		core.Violation(t, "C13:write-error", "ToCSV failed on a healthy writer: "+werr.Error(), tr)
		return
	}
	// expectation: the source observation with the documented conversions
	exp := &obs.Frame{Len: src.Len}
	for _, n := range order {
		i := indexOf(src.Names, n)
		exp.Names = append(exp.Names, n)
		exp.Types = append(exp.Types, src.Types[i])
		col := append([]string{}, src.Cols[i]...)
		if src.Types[i] == "string" || src.Types[i] == "enum" {
			for r, c := range col {
				if tr.EmptyNull {
					if c == `s:""` {
						col[r] = "null"
					}
				} else if c == "null" {
					col[r] = `s:""`
				}
			}
		}
		exp.Cols = append(exp.Cols, col)
	}
	gotObs := obs.Of(got)
	// all NaNs are one value for this property
	canonNaN(exp)
	canonNaN(gotObs)
	tr.Expected, tr.Observed = exp, gotObs
	if d := obs.Diff(exp, gotObs); d != "" {
		kind := "cells"
		switch {
		case gotObs.HasErr:
			kind = "read-error"
		case strings.Contains(d, "Len differs"):
			kind = "len"
		case strings.Contains(d, "name differs") || strings.Contains(d, "column count"):
			kind = "names"
		case strings.Contains(d, "type differs"):
			kind = "types"
		}
		core.Violation(t, "C13:roundtrip:"+kind, "ReadCSV(ToCSV(F)) differs from F: "+d, tr)
	}
}

func indexOf(ss []string, s string) int {
	for i, x := range ss {
		if x == s {
			return i
		}
	}
	return -1
}

func canonNaN(f *obs.Frame) {
	for c := range f.Cols {
		if f.Types[c] != "float" {
			continue
		}
		for r, cell := range f.Cols[c] {
			if isNaNText(cell) {
				f.Cols[c][r] = "f:NaN"
			}
		}
	}
}

func isNaNText(cell string) bool {
	if !strings.HasPrefix(cell, "f:") {
		return false
	}
	bits, err := strconv.ParseUint(cell[2:], 16, 64)
	if err != nil {
		return false
	}
	return bits&0x7ff0000000000000 == 0x7ff0000000000000 && bits&0x000fffffffffffff != 0
}
