// Engine race is the "no data races" half of C11: the programs of the family
// world run on free goroutines against an uninstrumented -race build. The
// cooperative scheduler cannot serve here: each of its hand-offs is a channel
// operation, i.e. a happens-before edge that would blind the detector. The
// same I1/I2 oracles are evaluated afterwards.
package race

import (
	"fmt"
	"os"
	"os/exec"
	"runtime/debug"
	"strconv"
	"strings"
	"sync"
	"testing"

	"pgregory.net/rapid"

	"verifsim/sim/core"
	"verifsim/sim/fam"
)

func TestMain(m *testing.M) {
	core.Init("race")
	code := m.Run()
	core.Flush()
	os.Exit(code)
}

func TestC11Race(t *testing.T) { rapid.Check(t, run) }

type rec struct {
	Client int    `json:"client"`
	Desc   string `json:"op"`
	ex     *fam.Exec
	conc   *fam.Outcome
}

type trace struct {
	Build    []string       `json:"build_ops"`
	Programs [][]fam.OpDesc `json:"programs"`
	Executed []rec          `json:"executed"`
	Detail   string         `json:"detail,omitempty"`
	Conc     string         `json:"concurrent_result,omitempty"`
	Alone    string         `json:"alone_result,omitempty"`
}

func safeRun(ex *fam.Exec) (out *fam.Outcome) {
	defer func() {
		if r := recover(); r != nil {
			out = &fam.Outcome{Panic: fmt.Sprint(r) + "\n" + string(debug.Stack()), Canon: "panic: " + fmt.Sprint(r)}
		}
	}()
	return ex.Run()
}

func clip(s string) string {
	if len(s) > 1500 {
		return s[:1500] + "..."
	}
	return s
}

func run(t *rapid.T) {
	b := fam.Bounds{MaxRows: 24, MaxCols: 4, MaxMembers: 24, HugeOdds: 150, GiantOdds: uint64(core.EnvInt("VERIF_GIANT_ODDS", 250)), LongNamesOdds: 8}
	maxOps, maxBuild, maxClients := 4, 5, 6
	if core.Thorough() {
		b = fam.Bounds{MaxRows: 64, MaxCols: 5, MaxMembers: 40, HugeOdds: 60, GiantOdds: uint64(core.EnvInt("VERIF_GIANT_ODDS", 150)), LongNamesOdds: 8}
		maxOps, maxBuild, maxClients = 6, 8, 8
	}
	w := fam.NewWorld(t, b)
	tr := &trace{}
	if w.Giant {
		core.Probe("giant-world")
		b.MaxMembers, maxOps, maxBuild, maxClients = 8, 2, 2, 4
	}
	// cold runs: the harness does not observe the values the build phase
	// derives before the goroutines start, so that it is not the first to
	// touch whatever a value initialises lazily (an error text, a cache)
	cold := rapid.IntRange(0, 2).Draw(t, "cold") == 0
	if cold {
		core.Probe("cold-runs")
	}
	core.Eval()
	nbuild := rapid.IntRange(0, maxBuild).Draw(t, "nbuild")
	fam.SkipObservation = cold
	defer func() { fam.SkipObservation = false }()
	var prev *fam.OpDesc
	for i := 0; i < nbuild; i++ {
		d := fam.DrawSibling(t, prev)
		prev = &d
		ex := fam.Resolve(w, d, -1)
		out := safeRun(ex)
		tr.Build = append(tr.Build, ex.Desc)
		if out.Panic != "" {
			core.Probe("operation-panicked-sequentially") // C10's business; a result like any other here
		}
		for _, m := range out.New {
			if len(w.Members) < b.MaxMembers {
				if cold {
					w.AddLight(m)
				} else {
					w.Add(m)
				}
			}
		}
	}
	fam.SkipObservation = false
	nclients := rapid.IntRange(2, maxClients).Draw(t, "nclients")
	stormOdds := 5
	if w.Huge {
		stormOdds = 1
	}
	if nclients > 1 && rapid.IntRange(0, stormOdds).Draw(t, "storm") == 0 {
		tr.Programs = fam.DrawStorm(t, nclients)
		core.Probe("storm-programs")
	} else {
		for c := 0; c < nclients; c++ {
			n := rapid.IntRange(1, maxOps).Draw(t, "nops")
			var prog []fam.OpDesc
			for i := 0; i < n; i++ {
				d := fam.DrawSibling(t, prev)
				prev = &d
				prog = append(prog, d)
			}
			tr.Programs = append(tr.Programs, prog)
		}
	}

	// every client gets a private view of the family (the shared members plus
	// what it derives itself) and its own lazily created evaluation context:
	// the harness shares nothing between the goroutines but the qframe values
	// themselves and the start channel
	results := make([][]*rec, nclients)
	start := make(chan struct{})
	var wg sync.WaitGroup
	for c := 0; c < nclients; c++ {
		c := c
		local := w.Fork()
		wg.Add(1)
		go func() {
			defer wg.Done()
			<-start
			for _, d := range tr.Programs[c] {
				ex := fam.Resolve(local, d, c)
				r := &rec{Client: c, Desc: ex.Desc, ex: ex}
				r.conc = safeRun(ex)
				results[c] = append(results[c], r)
				for _, m := range r.conc.New {
					if len(local.Members) < b.MaxMembers {
						local.Add(m)
					}
				}
			}
		}()
	}
	close(start)
	wg.Wait()
	nops := 0
	for _, rs := range results {
		for _, r := range rs {
			tr.Executed = append(tr.Executed, *r)
			nops++
		}
	}
	core.Steps(nops)
	core.Nontrivial(core.Hash64(fmt.Sprint(tr.Build), fmt.Sprint(tr.Programs)))
	if nops <= 5 && nbuild <= 2 {
		var ds []string
		for _, r := range tr.Executed {
			ds = append(ds, fmt.Sprintf("goroutine %d: %s", r.Client, r.Desc))
		}
		core.Sample(map[string]interface{}{"build": tr.Build, "goroutines": nclients, "executed": ds})
	}
	for _, rs := range results {
		for _, r := range rs {
			if r.conc.ArgChanged != "" {
				core.Violation(t, "C01:I1:argument-changed", "an operation changed a value passed to it: "+r.Desc+": "+r.conc.ArgChanged, tr)
				return
			}
		}
	}
	if m, d := w.CheckAll(); m != nil {
		tr.Detail = d
		core.Violation(t, "C01:I1:after-concurrent-use", fmt.Sprintf("an existing value changed (m%d = %s): %s", m.ID, m.Origin, clip(d)), tr)
		return
	}
	for _, rs := range results {
		for _, r := range rs {
			alone := safeRun(r.ex)
			if alone.Canon != r.conc.Canon {
				tr.Conc, tr.Alone = clip(r.conc.Canon), clip(alone.Canon)
				if r.conc.Panic != "" && alone.Panic == "" {
					tr.Detail = r.conc.Panic
					core.Violation(t, "C11:I2:panic-only-when-concurrent", fmt.Sprintf("%s (goroutine %d) panicked under concurrent use but not when run alone", r.Desc, r.Client), tr)
					return
				}
				core.Violation(t, "C11:I2:result-differs", fmt.Sprintf("%s (goroutine %d) returned a different result when run concurrently than when run alone", r.Desc, r.Client), tr)
				return
			}
		}
	}
	// the same operations on fresh copies of their operands (see the family engine)
	copies := map[*fam.Member]*fam.Member{}
	fresh := func(m *fam.Member) (*fam.Member, bool) {
		if m == nil {
			return nil, true
		}
		if c, ok := copies[m]; ok {
			return c, c != m
		}
		c, ok := m.FreshCopy()
		copies[m] = c
		return c, ok
	}
	for _, rs := range results {
		for _, r := range rs {
			recv, ok1 := fresh(r.ex.Recv)
			other, _ := fresh(r.ex.Other)
			if !ok1 {
				continue
			}
			core.Probe("fresh-copy-comparisons")
			rex := fam.ResolveWith(w, r.ex.D, r.Client, recv, other)
			ref := safeRun(rex)
			if ref.Canon != r.conc.Canon && os.Getenv("VERIF_DEBUG") != "" {
				fmt.Printf("DEBUG conc clause %s\nDEBUG ref clause %s\nDEBUG recv %+v\nDEBUG copy %+v\n", r.ex.Debug, rex.Debug, r.ex.Recv.Observe(), recv.Observe())
			}
			if ref.Canon != r.conc.Canon {
				tr.Conc, tr.Alone = clip(r.conc.Canon), clip(ref.Canon)
				core.Violation(t, "C11:I2:differs-from-fresh-copy", fmt.Sprintf("%s (goroutine %d) returned a different result than the same operation on a fresh copy of its operands", r.Desc, r.Client), tr)
				return
			}
		}
	}
}

// ---- first use ----
//
// State that lives in a package variable and is set up lazily, or grown the
// first time something larger than before comes along, is touched by exactly
// one call per process: whichever comes first. In a worker that runs
// thousands of worlds that call has long happened by the time two goroutines
// meet on it. TestC11FirstUse therefore starts a fresh process per trial
// (the same test binary, re-executed) whose first contact with qframe beyond
// building the frames is several goroutines doing the same operation at once.
// The trial is a function of one drawn key (the child's -rapid.seed); the
// race detector is the oracle, a panic that only shows under concurrency is
// reported as well.

func TestC11FirstUse(t *testing.T) {
	if os.Getenv("VERIF_FIRSTUSE_CHILD") != "" {
		rapid.Check(t, firstUseChild)
		return
	}
	rapid.Check(t, firstUseParent)
}

func firstUseParent(t *rapid.T) {
	key := rapid.Uint64().Draw(t, "childkey")
	core.Eval()
	cmd := exec.Command(os.Args[0], "-test.run", "^TestC11FirstUse$", "-test.count=1", "-test.cpu=4",
		"-rapid.checks=1", "-rapid.seed="+strconv.FormatUint(key, 10), "-rapid.nofailfile", "-test.timeout=5m")
	env := []string{"VERIF_FIRSTUSE_CHILD=1"}
	for _, e := range os.Environ() {
		if !strings.HasPrefix(e, "VERIF_STATS=") && !strings.HasPrefix(e, "VERIF_TRACE=") {
			env = append(env, e)
		}
	}
	cmd.Env = env
	out, err := cmd.CombinedOutput()
	core.Steps(1)
	core.Nontrivial(core.Hash64("firstuse", key))
	core.Probe("first-use-trials")
	if err == nil {
		if i := strings.Index(string(out), "FIRSTUSE "); i >= 0 {
			line := string(out)[i:]
			if j := strings.IndexByte(line, '\n'); j >= 0 {
				line = line[:j]
			}
			for _, f := range strings.Fields(line)[1:] {
				core.Probe("first-use:" + f)
			}
		}
		return
	}
	if ee, ok := err.(*exec.ExitError); ok && (ee.ExitCode() == 66 || strings.Contains(string(out), "WARNING: DATA RACE")) {
		// the report of the child becomes the report of this worker
		fmt.Printf("first-use trial with child key %d:\n%s\n", key, out)
		core.Flush()
		os.Exit(66)
	}
	if strings.Contains(string(out), "FIRSTUSE-PANIC") {
		core.Violation(t, "C11:I2:panic-only-when-concurrent", "an operation panicked when several goroutines ran it as their first use of the library (child key "+strconv.FormatUint(key, 10)+"): "+clip(string(out)), map[string]interface{}{"child_key": key, "output": clip(string(out))})
		return
	}
	t.Fatalf("harness: first-use child failed: %v\n%s", err, clip(string(out)))
}

func firstUseChild(t *rapid.T) {
	b := fam.Bounds{MaxRows: 40, MaxCols: 4, MaxMembers: 8, LongNamesOdds: 2, Cold: true}
	w := fam.NewWorld(t, b)
	fam.SkipObservation = true
	defer func() { fam.SkipObservation = false }()
	nbuild := rapid.IntRange(0, 2).Draw(t, "nbuild")
	var prev *fam.OpDesc
	for i := 0; i < nbuild; i++ {
		d := fam.DrawSibling(t, prev)
		prev = &d
		out := safeRun(fam.Resolve(w, d, -1))
		for _, m := range out.New {
			w.AddLight(m)
		}
	}
	nclients := rapid.IntRange(2, 6).Draw(t, "nclients")
	d0 := fam.DrawOp(t)
	// every kind of operation equally often (rapid's small integers lean towards 0)
	d0.Kind = int(core.Hash64(rapid.Uint64().Draw(t, "kindkey")) % 64)
	if rapid.Bool().Draw(t, "onlast") {
		d0.Last = true
	}
	observe := rapid.Bool().Draw(t, "observe")
	kind := ""
	panics := make([]string, nclients)
	start := make(chan struct{})
	var wg sync.WaitGroup
	for c := 0; c < nclients; c++ {
		c := c
		local := w.Fork()
		ex := fam.Resolve(local, d0, c)
		kind = ex.Kind
		wg.Add(1)
		go func() {
			defer wg.Done()
			<-start
			panics[c] = safeRun(ex).Panic
		}()
	}
	fam.SkipObservation = !observe
	close(start)
	wg.Wait()
	// a panic counts only if the same operation does not panic on its own
	for c, p := range panics {
		if p != "" {
			if alone := safeRun(fam.Resolve(w, d0, c)); alone.Panic == "" {
				fmt.Printf("FIRSTUSE-PANIC %s\n", p)
				os.Exit(3)
			}
		}
	}
	fmt.Printf("FIRSTUSE op:%s\n", kind)
}
